#!/usr/bin/env python3
"""usage: seedmeta.py <seed-name> <property> <round> <change> <needs> <before> <after>  -> writes seeded/<name>/meta.json from the logs seedcheck.sh left there"""
import json, os, re, sys
name, prop, rnd, change, needs, before, after = sys.argv[1:8]
d = os.path.join(os.path.dirname(os.path.dirname(os.path.abspath(__file__))), 'seeded', name)
def rd(f):
    try:
        return open(os.path.join(d, f)).read()
    except OSError:
        return ''
base = rd('baseline_patched.log').strip().splitlines()[:1]
try:
    res = [l for l in open(f'/tmp/seedlogs/{name}.log') if l.startswith('RESULT')][-1]
    d0 = int(re.search(r'demo_original=(\d+)', res).group(1)); d1 = int(re.search(r'demo_patched=(\d+)', res).group(1))
except Exception:
    d0 = d1 = None
meta = {
    'breaks_property': prop, 'change': change, 'needs_to_manifest': needs, 'round': int(rnd),
    'origin': 'independent sub-agent given only the property record, a scratch worktree of /repo and a one-line list of the areas earlier seeded changes had touched (to avoid them)',
    'confirmed': {'baseline_on_patched': base[0] if base else None,
                  'demo_on_original_exit': d0, 'demo_on_patched_exit': d1,
                  'commands': [f'tools/seedcheck.sh {name} {prop} <worktree|-> [--only ...]']},
    'quick_check_before_strengthening': before, 'after_strengthening': after,
}
json.dump(meta, open(os.path.join(d, 'meta.json'), 'w'), indent=1)
print(json.dumps(meta['confirmed']))
