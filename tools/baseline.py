#!/usr/bin/env python3
"""Run the repository's pinned test suite and compare with /root/.vp/BASELINE.json stable_pass.
usage: baseline.py [repo_dir]   -> exit 0 iff every stable_pass test passes."""
import json, subprocess, sys, tempfile, os, xml.etree.ElementTree as ET
repo = sys.argv[1] if len(sys.argv) > 1 else '/repo'
base = json.load(open('/root/.vp/BASELINE.json'))
want = set(base['stable_pass'])
with tempfile.TemporaryDirectory(prefix='vbase') as d:
    x = os.path.join(d, 'r.xml')
    env = dict(os.environ)
    env.pop('NEOGENY_TATSU_VERIF', None)
    subprocess.run(['/venv/bin/python', '-m', 'pytest', '-q', '-p', 'no:cacheprovider', '--timeout=900',
                    '--continue-on-collection-errors', f'--junitxml={x}'], cwd=repo, env=env,
                   stdout=subprocess.DEVNULL, stderr=subprocess.DEVNULL)
    passed = set()
    failed = set()
    for tc in ET.parse(x).getroot().iter('testcase'):
        tid = f"{tc.get('classname')}::{tc.get('name')}"
        bad = any(ch.tag in ('failure', 'error', 'skipped') for ch in tc)
        (failed if bad else passed).add(tid)
missing = sorted(want - passed)
print(f'passed={len(passed)} failed={len(failed)} baseline={len(want)} baseline_missing={len(missing)}')
for m in missing[:40]:
    print('  MISSING', m)
sys.exit(1 if missing else 0)
