import random, sys, warnings
warnings.simplefilter('ignore')
sys.path.insert(0, '/verif')
from tools.calib.fuzzref import *

def add_cuts(rng, e, p=0.5):
    k = e[0]
    if k == 'seq':
        out = []
        for x in e[1]:
            out.append(add_cuts(rng, x, p))
            if rng.random() < p: out.append(('cut',))
        return ('seq', out)
    if k in ('grp', 'opt', 'rep', 'rep1', 'and', 'not', 'ovr', 'ovrl', 'skipto'):
        return (k, add_cuts(rng, e[1], p))
    if k in ('named', 'namedl'):
        return (k, e[1], add_cuts(rng, e[2], p))
    if k == 'alt':
        return ('alt', [add_cuts(rng, x, p) for x in e[1]])
    if k == 'join':
        return ('join', e[1], add_cuts(rng, e[2], p), e[3], e[4])
    return e

if __name__ == '__main__':
    seed = int(sys.argv[1]); N = int(sys.argv[2])
    rng = random.Random(seed)
    texts = list(inputs(5, 'ab,'))
    nbad = 0
    for i in range(N):
        r = ('r', add_cuts(rng, gen_exp(rng, 1, False, (), False)))
        start = ('start', add_cuts(rng, gen_exp(rng, 2, False, ('r',), False)))
        bad = compare([start, r], texts, nameguard=False)
        if bad:
            nbad += 1
            b = bad[0]
            print('---', len(bad), 'mismatches; first:')
            print(b[0].strip()); print('   text=%r real=%r ref=%r' % b[1:])
    print('grammars with mismatches:', nbad, 'of', N)
