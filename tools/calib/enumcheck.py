"""native differential sweep of the enumerated grammar slices (refpeg vs engine), used to validate the seeds the quick tier may pick"""
import sys, warnings
warnings.simplefilter('ignore')
sys.path.insert(0, '/verif')
from vt import grammars
from tools.calib.fuzzref import compare, inputs
texts = list(inputs(4))
bad_seeds = {}
for seed in range(int(sys.argv[1]), int(sys.argv[2])):
    for nm, rules in grammars.enumerated(seed, int(sys.argv[3]) if len(sys.argv) > 3 else 8):
        bad = compare(rules, texts)
        if bad:
            bad_seeds.setdefault(seed, []).append((nm, bad[0]))
            b = bad[0]
            print('---', nm, len(bad), 'mismatches; first:'); print(b[0].strip() if b[0] != 'COMPILE' else b); print('   text=%r real=%r ref=%r' % b[1:] if b[0] != 'COMPILE' else '')
print('seeds with mismatches:', sorted(bad_seeds))
