import random, sys, itertools, warnings
warnings.simplefilter('ignore')
sys.path.insert(0, '/verif')
import tatsu
from tatsu.exceptions import FailedParse
from vt.refpeg import *

def norm(v):
    if isinstance(v, dict):
        return {k: norm(x) for k, x in v.items() if k not in ('parseinfo', '__parseinfo__')}
    if isinstance(v, (list, tuple)) and not (isinstance(v, tuple) and v == ()):
        return [norm(x) for x in v]
    return v

TOK = ['a', 'b', ',']
def gen_exp(rng, depth, names_ok=True, rules=('r',), cuts=True):
    leaf = depth <= 0 or rng.random() < 0.3
    if leaf:
        c = rng.random()
        if c < 0.55: return ('tok', rng.choice(TOK))
        if c < 0.65: return ('pat', rng.choice(['a+', '[ab]', 'b?', r'\w']))
        if c < 0.75 and rules: return ('call', rng.choice(rules))
        if c < 0.80: return ('void',)
        if c < 0.85 and cuts: return ('cut',)
        if c < 0.90: return ('eof',)
        if c < 0.93: return ('dot',)
        if c < 0.96: return ('const', rng.choice(['x', '7']))
        return ('emptyc',)
    c = rng.random()
    sub = lambda: gen_exp(rng, depth - 1, names_ok, rules, cuts)
    if c < 0.30: return ('seq', [sub() for _ in range(rng.randint(2, 3))])
    if c < 0.45: return ('grp', ('alt', [sub() for _ in range(2)]))
    if c < 0.55: return ('opt', sub())
    if c < 0.63: return ('rep', sub())
    if c < 0.68: return ('rep1', sub())
    if c < 0.75: return ('join', ('tok', ','), sub(), rng.random() < 0.5, rng.random() < 0.5)
    if c < 0.80: return ('and', sub())
    if c < 0.85: return ('not', sub())
    if c < 0.92 and names_ok: return (rng.choice(['named', 'namedl']), rng.choice(['x', 'y']), gen_term(rng, depth - 1, rules, cuts))
    if c < 0.96 and names_ok: return (rng.choice(['ovr', 'ovrl']), gen_term(rng, depth - 1, rules, cuts))
    return ('grp', sub())

def gen_term(rng, depth, rules, cuts):
    e = gen_exp(rng, depth, False, rules, cuts)
    if e[0] in ('seq', 'alt', 'named', 'namedl', 'ovr', 'ovrl', 'and', 'not'):
        return ('grp', e)
    return e

def inputs(maxlen, alpha='ab, '):
    for n in range(maxlen + 1):
        for t in itertools.product(alpha, repeat=n):
            yield ''.join(t)

def compare(rules, texts, **settings):
    gtxt = render_grammar(rules)
    try:
        m = tatsu.compile(gtxt)
    except Exception as ex:
        return [('COMPILE', gtxt, type(ex).__name__, str(ex)[:100])]
    g = G(rules, **settings)
    bad = []
    for t in texts:
        try:
            real = ('ok', norm(m.parse(t, **{k: v for k, v in settings.items()})))
        except FailedParse:
            real = ('fail',)
        except RecursionError:
            real = ('recursion',)
        except Exception as ex:
            real = ('exc', type(ex).__name__, str(ex)[:80])
        try:
            v, q = Ref(g, t).parse()
            ref = ('ok', norm(v))
        except Fail:
            ref = ('fail',)
        except RecursionError:
            ref = ('recursion',)
        if real != ref:
            bad.append((gtxt, t, real, ref))
    return bad

if __name__ == '__main__':
    seed = int(sys.argv[1]) if len(sys.argv) > 1 else 0
    N = int(sys.argv[2]) if len(sys.argv) > 2 else 200
    rng = random.Random(seed)
    texts = list(inputs(4))
    nbad = 0
    seen = set()
    for i in range(N):
        r = ('r', gen_exp(rng, 1, True, (), True))
        start = ('start', gen_exp(rng, 2, True, ('r',), True))
        rules = [start, r]
        bad = compare(rules, texts, nameguard=False)
        if bad:
            nbad += 1
            b = bad[0]
            print('---', len(bad), 'mismatches; first:')
            print(b[0].strip()); print('   text=%r real=%r ref=%r' % b[1:])
    print('grammars with mismatches:', nbad, 'of', N)
