import sys, warnings, itertools
warnings.simplefilter('ignore')
sys.path.insert(0, '/verif')
from tools.calib.fuzzref import *
T = lambda s: ('tok', s)
C = lambda n: ('call', n)
S = lambda *a: ('seq', list(a))
A = lambda *a: ('alt', list(a))
GRAMMARS = {
 'direct': [('start', S(C('e'), ('eof',))), ('e', A(S(C('e'), T('+'), C('t')), C('t'))), ('t', A(T('x'), S(T('('), C('e'), T(')'))))],
 'two_ops': [('start', S(C('e'), ('eof',))), ('e', A(S(C('e'), T('+'), C('m')), S(C('e'), T('-'), C('m')), C('m'))), ('m', A(S(C('m'), T('*'), C('a')), C('a'))), ('a', A(T('x'), S(T('-'), C('a'))))],
 'aliased': [('start', S(C('x'), ('eof',))), ('x', C('e')), ('e', A(S(C('x'), T('+'), C('t')), C('t'))), ('t', T('x'))],
 'mutual': [('start', S(C('a'), ('eof',))), ('a', A(S(C('b'), T('+')), T('x'))), ('b', A(S(C('a'), T('*')), T('x')))],
 'optprefix': [('start', S(C('e'), ('eof',))), ('e', A(S(('opt', T('-')), C('e'), T('+'), C('t')), C('t'))), ('t', T('x'))],
 'named': [('start', S(C('e'), ('eof',))), ('e', A(S(('named', 'l', C('e')), ('named', 'op', T('+')), ('named', 'r', C('t'))), C('t'))), ('t', T('x'))],
 'rightrec': [('start', S(C('e'), ('eof',))), ('e', A(S(C('e'), T('+'), C('e')), T('x')))],
 'noeof': [('start', C('e')), ('e', A(S(C('e'), T('+'), C('t')), C('t'))), ('t', T('x'))],
}
texts = list(inputs(6, 'x+*-()'))[:60000]
for name, rules in GRAMMARS.items():
    bad = compare(rules, texts, nameguard=False)
    print(name, 'mismatches:', len(bad))
    for b in bad[:3]:
        print('   text=%r real=%r ref=%r' % b[1:])
