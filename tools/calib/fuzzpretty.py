import random, sys, warnings, json, pickle
warnings.simplefilter('ignore')
sys.path.insert(0, '/verif')
import tatsu
from tatsu.api import api
from tatsu.exceptions import FailedParse
from tools.calib.fuzzref import gen_exp, inputs, norm
from vt.refpeg import render_grammar
CACHE = [v for k, v in vars(api).items() if k.endswith('__compiled_grammar_cache')][0]
def outcome(m, t, **kw):
    try: return ('ok', norm(m.parse(t, **kw)))
    except FailedParse: return ('fail',)
    except Exception as ex: return ('exc', type(ex).__name__, str(ex)[:60])
if __name__ == '__main__':
    seed = int(sys.argv[1]); N = int(sys.argv[2])
    rng = random.Random(seed)
    texts = list(inputs(4))
    stats = dict(pretty_fail=0, fix_fail=0, parse_diff=0, json_fail=0, json_diff=0, pickle_fail=0, pickle_diff=0, src_fail=0, src_diff=0)
    shown = {k: 0 for k in stats}
    def show(k, *a):
        stats[k] += 1
        if shown[k] < 3:
            shown[k] += 1; print('---', k, *[str(x)[:300] for x in a])
    for i in range(N):
        r = ('r', gen_exp(rng, 1, True, (), True))
        start = ('start', gen_exp(rng, 2, True, ('r',), True))
        g = render_grammar([start, r])
        CACHE.clear()
        try: m = tatsu.compile(g)
        except Exception as ex: continue
        base = [outcome(m, t, nameguard=False) for t in texts]
        p = m.pretty()
        try:
            m2 = tatsu.compile(p)
        except Exception as ex:
            show('pretty_fail', g.strip(), '=>', p.strip(), type(ex).__name__); m2 = None
        if m2 is not None:
            if m2.pretty() != p: show('fix_fail', g.strip(), '|', p.strip(), '|', m2.pretty().strip())
            o2 = [outcome(m2, t, nameguard=False) for t in texts]
            if o2 != base:
                k = next(j for j in range(len(texts)) if o2[j] != base[j])
                show('parse_diff', g.strip(), '=>', p.strip(), repr(texts[k]), base[k], o2[k])
        try:
            m3 = tatsu.peg.Grammar.loads(json.dumps(m.asjson()))
            o3 = [outcome(m3, t, nameguard=False) for t in texts]
            if o3 != base:
                k = next(j for j in range(len(texts)) if o3[j] != base[j])
                show('json_diff', g.strip(), repr(texts[k]), base[k], o3[k])
        except Exception as ex:
            show('json_fail', g.strip(), type(ex).__name__, ex)
        try:
            m4 = pickle.loads(pickle.dumps(m))
            o4 = [outcome(m4, t, nameguard=False) for t in texts]
            if o4 != base:
                k = next(j for j in range(len(texts)) if o4[j] != base[j])
                show('pickle_diff', g.strip(), repr(texts[k]), base[k], o4[k])
        except Exception as ex:
            show('pickle_fail', g.strip(), type(ex).__name__, ex)
        try:
            src = tatsu.api.to_parsermodel_sourcecode(g, name='Z')
            ns = {}
            exec(compile(src, 'zsrc', 'exec'), ns)
            m5 = ns['GRAMMAR_MODEL']
            o5 = [outcome(m5, t, nameguard=False) for t in texts]
            if o5 != base:
                k = next(j for j in range(len(texts)) if o5[j] != base[j])
                show('src_diff', g.strip(), repr(texts[k]), base[k], o5[k])
        except Exception as ex:
            show('src_fail', g.strip(), type(ex).__name__, ex)
    print(stats)
