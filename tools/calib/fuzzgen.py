import random, sys, itertools, warnings
warnings.simplefilter('ignore')
sys.path.insert(0, '/verif')
import tatsu
from tatsu.exceptions import FailedParse
from vt.refpeg import *
from tools.calib.fuzzref import gen_exp, inputs, norm

def both(rules, texts, **settings):
    gtxt = '@@grammar :: F\n' + render_grammar(rules)
    try:
        m = tatsu.compile(gtxt)
        src = tatsu.to_python_sourcecode(gtxt)
        ns = {}
        exec(compile(src, 'gen', 'exec'), ns)
        P = ns['FParser']
    except Exception as ex:
        return [('GEN', gtxt, type(ex).__name__, str(ex)[:100])]
    bad = []
    for t in texts:
        def run(f):
            try: return ('ok', norm(f()))
            except FailedParse: return ('fail',)
            except RecursionError: return ('recursion',)
            except Exception as ex: return ('exc', type(ex).__name__, str(ex)[:60])
        a = run(lambda: m.parse(t, **settings))
        b = run(lambda: P().parse(t, **settings))
        if a != b:
            bad.append((gtxt, t, a, b))
    return bad

if __name__ == '__main__':
    seed = int(sys.argv[1]); N = int(sys.argv[2])
    rng = random.Random(seed)
    texts = list(inputs(4))
    nbad = 0
    for i in range(N):
        r = ('r', gen_exp(rng, 1, True, (), True))
        start = ('start', gen_exp(rng, 2, True, ('r',), True))
        bad = both([start, r], texts, nameguard=False)
        if bad:
            nbad += 1
            b = bad[0]
            print('---', len(bad), 'mismatches; first:')
            if b[0] == 'GEN': print(b)
            else:
                print(b[0].strip()); print('   text=%r model=%r gen=%r' % b[1:])
    print('grammars with mismatches:', nbad, 'of', N)
