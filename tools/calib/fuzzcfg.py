import random, sys, warnings
warnings.simplefilter('ignore')
sys.path.insert(0, '/verif')
from tools.calib.fuzzref import *
CFGS = [
  dict(),
  dict(ignorecase=True),
  dict(nameguard=True),
  dict(whitespace=''),
  dict(whitespace='[ ]+'),
  dict(namechars='-'),
  dict(comments=r'\(\*.*?\*\)', eol_comments=r'#[^\n]*'),
]
ALPHA = {0: 'ab ,', 1: 'aAb ', 2: 'ab1 ', 3: 'ab ,', 4: 'ab\n ', 5: 'ab- ', 6: 'a#(*)\n'}
if __name__ == '__main__':
    seed = int(sys.argv[1]); N = int(sys.argv[2])
    rng = random.Random(seed)
    for ci, cfg in enumerate(CFGS):
        texts = list(inputs(4 if ci < 6 else 5, ALPHA[ci]))
        nbad = 0
        for i in range(N):
            r = ('R' if rng.random() < 0.4 else 'r', gen_exp(rng, 1, True, (), True))
            start = ('start', gen_exp(rng, 2, True, (r[0],), True))
            bad = compare([start, r], texts, **cfg)
            if bad:
                nbad += 1
                if nbad <= 4:
                    b = bad[0]
                    print('---', cfg, len(bad), 'mismatches; first:')
                    print(b[0].strip()); print('   text=%r real=%r ref=%r' % b[1:])
        print('CFG', cfg, 'grammars with mismatches:', nbad, 'of', N)
