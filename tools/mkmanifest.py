#!/usr/bin/env python3
"""Regenerates MANIFEST.json from vt/props/*.py metadata (MANIFEST dict in each module) — keeps it consistent."""
import importlib, json, os, sys
ROOT = os.path.dirname(os.path.dirname(os.path.abspath(__file__)))
sys.path.insert(0, ROOT)
props = [json.loads(l) for l in open(os.path.join(ROOT, 'properties.jsonl'))]
checks, na = [], []
for p in props:
    pid = p['id']
    try:
        meta = importlib.import_module(f'vt.props.{pid.lower()}_meta').META
    except ImportError:
        na.append({'property_id': pid, 'reason': 'check not built yet (build in progress; see DESIGN.md §5 for the planned solver-based obligation)'})
        continue
    if meta.get('not_applicable'):
        na.append({'property_id': pid, 'reason': meta['not_applicable']})
        continue
    checks.append({
        'property_id': pid,
        'quick_cmd': f'./check {pid} quick',
        'thorough_cmd': f'./check {pid} thorough',
        'evidence_file': f'/verif/evidence/{pid}.json',
        'replay_cmd_template': f'./check {pid} --replay {{path}}',
        'engine': 'crosshair-z3',
        'level_claimed': {'category': meta['level'], 'text': meta['text'], 'design_ref': meta.get('design_ref', f'DESIGN.md §5 {pid}')},
        'level_note': meta['note'],
        'technique': meta.get('technique', 'bounded symbolic execution of the real Python code (CrossHair + z3), exhaustive over paths within stated bounds; counterexamples replayed natively'),
    })
man = {
    'version': 1,
    'setup_cmd': './setup.sh',
    'hooks': {'guard': 'NEOGENY_TATSU_VERIF', 'enable': 'no source hooks: checks import /repo as is (the guard variable is set by ./check but nothing in /repo reads it)',
              'baseline_off_cmd': 'cd /repo && /venv/bin/python -m pytest -ra -q -p no:cacheprovider --timeout=900 --continue-on-collection-errors',
              'source_commits': [], 'add_only': True},
    'engines': [{'name': 'crosshair-z3', 'path': '/verif/vt', 'serves_properties': [c['property_id'] for c in checks],
                 'kind_free_text': 'CrossHair 0.0.110 symbolic execution of CPython byte-code over z3 5.1, driven by vt/runner.py with the plugin vt/chplugin.py; one process per obligation; per-path native witness replay'}],
    'checks': checks,
    'not_applicable': na,
    'notes': 'See DESIGN.md. Genuine defects repaired in /repo as fix: commits are listed (status fixed) in known_findings.json together with the findings recorded as known.',
}
json.dump(man, open(os.path.join(ROOT, 'MANIFEST.json'), 'w'), indent=1)
print('checks', [c['property_id'] for c in checks], 'n/a', len(na))
