#!/usr/bin/env python3
"""prints DESIGN §8.1 table rows for the seeded changes of the given rounds"""
import glob, json, os, sys
rounds = set(map(int, sys.argv[1:])) or {4, 5}
for d in sorted(glob.glob(os.path.join(os.path.dirname(os.path.dirname(os.path.abspath(__file__))), 'seeded', '*'))):
    try:
        m = json.load(open(os.path.join(d, 'meta.json')))
    except Exception:
        continue
    if m.get('round') in rounds:
        print(f"| `{os.path.basename(d)}` | {m['breaks_property']} | {m['needs_to_manifest']} | {m['quick_check_before_strengthening']} | {m['after_strengthening']} |")
