#!/bin/bash
# usage: tools/runall.sh quick|thorough [IDs...]  -> runs each check sequentially, logs to /tmp/runall_<tier>/<ID>.log, prints a summary line per check
tier=${1:-quick}; shift
ids=${@:-C01 C02 C03 C04 C05 C06 C07 C08 C09 C10 C11 C12 C13 C14 C15 C16 C17 C18 C19 C20}
mkdir -p /tmp/runall_$tier
cd /verif
for id in $ids; do
  s=$(date +%s)
  ./check $id $tier > /tmp/runall_$tier/$id.log 2>&1; rc=$?
  e=$(date +%s)
  echo "$id rc=$rc wall=$((e-s))s $(tail -1 /tmp/runall_$tier/$id.log | cut -c1-230)"
done
