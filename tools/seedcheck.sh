#!/bin/bash
# usage: tools/seedcheck.sh <seed-name> <property-id> <worktree> [extra check args]
# Confirms a seeded change (baseline passes; demo passes on original and fails with the patch), stores it under seeded/<seed-name>/ and runs the
# property's quick check against a scratch copy of /repo with the patch applied.
set -u
name=$1; prop=$2; wt=$3; shift 3
out=/verif/seeded/$name
mkdir -p $out
if [ "$wt" != "-" ]; then   # "-": use the patch.diff and demo_seed.py already stored under seeded/<name>/
  ( cd $wt && git diff -- tatsu > $out/patch.diff )
  cp $wt/demo_seed.py $out/demo_seed.py 2>/dev/null || echo "no demo_seed.py in $wt"
fi
M=$(mktemp -d /tmp/vseed.XXXXXX)
trap 'rm -rf "$M"' EXIT
rsync -a --exclude .git --exclude __pycache__ /repo/ "$M/"
cd /tmp
echo "--- demo on original (/repo):"; PYTHONPATH=/repo timeout 300 /venv/bin/python $out/demo_seed.py > $out/demo_original.log 2>&1; d0=$?; echo "exit $d0"
( cd "$M" && patch -p1 -s < $out/patch.diff ) || { echo "patch does not apply to /repo"; exit 3; }
echo "--- demo on patched:"; PYTHONPATH="$M" timeout 300 /venv/bin/python $out/demo_seed.py > $out/demo_patched.log 2>&1; d1=$?; echo "exit $d1"; tail -3 $out/demo_patched.log
echo "--- baseline on patched:"; python3 /verif/tools/baseline.py "$M" | tee $out/baseline_patched.log | head -3
cd /verif
echo "--- ./check $prop quick $* on patched:"
s=$(date +%s)
VERIF_REPO="$M" VERIF_NO_EVIDENCE=1 ./check $prop quick "$@" > $out/check_quick.log 2>&1; rc=$?
e=$(date +%s)
grep -c "^VIOLATION" $out/check_quick.log | sed 's/^/VIOLATION lines: /'
grep "violation in" $out/check_quick.log | head -3 | cut -c1-250
tail -1 $out/check_quick.log | cut -c1-250
echo "RESULT seed=$name prop=$prop demo_original=$d0 demo_patched=$d1 check_rc=$rc wall=$((e-s))s"
