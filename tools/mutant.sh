#!/bin/bash
# usage: tools/mutant.sh <patch-file|-e 'python-code editing files under $M'> -- <check args...>
# Copies /repo's working tree to a scratch dir, applies the patch, runs ./check against it (VERIF_REPO), removes the copy.
set -e
M=$(mktemp -d /tmp/vmut.XXXXXX)
trap 'rm -rf "$M"' EXIT
rsync -a --exclude .git --exclude __pycache__ /repo/ "$M/"
if [ "$1" = "-e" ]; then
    (cd "$M" && M="$M" python3 -c "$2"); shift 2
else
    (cd "$M" && patch -p1 -s < "$1"); shift
fi
[ "$1" = "--" ] && shift
(cd "$M" && diff -ru --exclude __pycache__ /repo/tatsu "$M/tatsu" | head -${MUT_DIFF_LINES:-30}) || true
cd /verif
if [ "$1" = "--baseline" ]; then python3 tools/baseline.py "$M"; exit $?; fi
VERIF_REPO="$M" VERIF_NO_EVIDENCE=1 ./check "$@"
