#!/bin/bash
# Offline set-up: an overlay venv on top of /venv (which has TatSu's dependencies) with crosshair-tool
# installed from the local wheelhouse.  Idempotent; `check` calls it when the overlay is missing.
set -e
cd "$(dirname "$0")"
V=.venv
if [ ! -x "$V/bin/python" ] || ! "$V/bin/python" -c "import crosshair, z3" 2>/dev/null; then
    rm -rf "$V"
    /venv/bin/python -m venv "$V"
    SP=$("$V/bin/python" -c "import sysconfig; print(sysconfig.get_paths()['purelib'])")
    printf '/venv/lib/python3.12/site-packages\n' > "$SP/_verif_overlay.pth"
    PIP_NO_INDEX=1 "$V/bin/pip" install -q --no-index --find-links /opt/veriftools/wheels crosshair-tool
fi
"$V/bin/python" -c "import crosshair, z3; print('crosshair', crosshair.__version__ if hasattr(crosshair,'__version__') else 'ok', 'z3', z3.get_version_string())"
