"""Translation-validation body: one grammar model and its re-obtained variants (pretty-printed and recompiled, JSON, pickle, model
source) parsed side by side on the same symbolic text."""
from __future__ import annotations

import json
import pickle

from .harness import mktext, skel
from .pegbody import Engine, norm


class ModelEngine(Engine):
    """Engine around an existing Grammar object"""

    def __init__(self, model, settings=None, start=None):
        self.model = model
        self.gtext = None
        self.settings = dict(settings or {})
        if start:
            self.settings['start'] = start
        self.with_pos = True
        try:
            self.parse('')
        except (AttributeError, TypeError):
            self.with_pos = False
        except Exception:  # noqa: BLE001
            pass           # (a tree on which even '' blows up: the obligation bodies report it)


def rules_signature(m):
    return [(r.name, tuple(map(str, r.params or ())), tuple(sorted((r.kwparams or {}).items())), bool(r.is_name), bool(getattr(r, 'no_memo', False)), r.base if hasattr(r, 'base') else None)
            for r in m.rules]


def variants_of(model, gtext, which):
    """-> {variant name: Grammar or ('error', reason)} ; runs concretely"""
    import tatsu
    from tatsu.peg import Grammar
    out = {}
    for w in which:
        try:
            if w == 'pretty':
                out[w] = tatsu.compile(model.pretty(), name=model.name)
            elif w == 'json':
                out[w] = Grammar.load(json.loads(json.dumps(model.asjson())))
            elif w == 'pickle':
                # a model that has never parsed (a fresh compilation when the grammar text is at hand)
                cold = tatsu.compile(gtext, name=(model.name or 'VT') + 'Cold') if gtext else model
                out[w] = pickle.loads(pickle.dumps(cold))
            elif w == 'pickle_used':
                # a model that HAS parsed: its cached optimized copy and whatever else a parse leaves behind travel in the pickle
                for t in ('', 'a', 'a b', 'b'):
                    try:
                        model.parse(t)
                    except Exception:  # noqa: BLE001
                        pass
                out[w] = pickle.loads(pickle.dumps(model))
            elif w == 'modelsrc':
                from tatsu.api.api import to_parsermodel_sourcecode
                src = to_parsermodel_sourcecode(gtext, name='VTM')
                ns: dict = {'__name__': 'vt_modelsrc'}
                exec(compile(src, '<modelsrc>', 'exec'), ns)  # noqa: S102
                out[w] = ns['GRAMMAR_MODEL']
            else:
                raise ValueError(w)
        except Exception as e:  # noqa: BLE001
            out[w] = ('error', type(e).__name__ + ': ' + str(e)[:120])
    return out


def concrete_relation(model, variants):
    """same rules, directives, keywords; pretty is a fixpoint.  -> list of (name, ok, detail)"""
    import tatsu
    res = []
    for w, v in variants.items():
        if isinstance(v, tuple):
            res.append((f'{w}:loads', False, v[1]))
            continue
        res.append((f'{w}:rules', rules_signature(v) == rules_signature(model), [rules_signature(v), rules_signature(model)]))
        res.append((f'{w}:keywords', tuple(sorted(v.keywords)) == tuple(sorted(model.keywords)), [v.keywords, model.keywords]))
        d1 = {k: x for k, x in dict(v.directives).items() if k != 'grammar'}
        d2 = {k: x for k, x in dict(model.directives).items() if k != 'grammar'}
        res.append((f'{w}:directives', d1 == d2, [d1, d2]))
        if w != 'pretty':
            # the reloaded model prints as the original does (every node, literal and decorator survived)
            try:
                res.append((f'{w}:pretty-text', v.pretty() == model.pretty(), [v.pretty()[:200], model.pretty()[:200]]))
            except Exception as e:  # noqa: BLE001
                res.append((f'{w}:pretty-text', False, 'pretty() raises ' + type(e).__name__ + ': ' + str(e)[:100]))
        if w == 'pretty':
            try:
                p1, p2 = model.pretty(), v.pretty()
                res.append(('pretty:fixpoint', p2 == p1, [p1, p2]))
            except Exception as e:  # noqa: BLE001
                res.append(('pretty:fixpoint', False, 'pretty() of the recompiled model raises ' + type(e).__name__ + ': ' + str(e)[:100]))
    return res


def make_equiv(spec):
    import tatsu
    gtext = spec.get('gtext')
    which = spec['variants']
    if 'antlr' in spec:       # a model translated from an ANTLR grammar
        from tatsu import g2e
        model = g2e.translate(text=spec['antlr'], name=spec.get('name', 'VT'))
    else:
        model = tatsu.compile(gtext, name=spec.get('name', 'VT'))
    base = ModelEngine(model, spec.get('settings'))
    vs = variants_of(model, gtext, which)
    engines = {w: ModelEngine(v, spec.get('settings')) for w, v in vs.items() if not isinstance(v, tuple)}
    broken = {w: v[1] for w, v in vs.items() if isinstance(v, tuple)}
    n = spec['n']
    # {variant: finding id}: a variant whose disagreement is a listed known finding for this grammar (e.g. the JSON reload of a grammar that holds a
    # constant starting with 'f{': F6)
    from .known import tolerated
    tol = {w: f for w, f in (spec.get('known') or {}).items() if f in tolerated(spec.get('prop', ''))}

    def guarded(e, t):
        try:
            return e.parse(t)
        except RecursionError:
            return ('recursion',)
        except Exception as ex:  # noqa: BLE001
            return ('exception', type(ex).__name__ + ': ' + str(ex)[:80])

    def body(args):
        if broken:
            return False, 'variant-does-not-load', broken
        t = mktext(args)
        real = guarded(base, t)
        if real[0] not in ('ok', 'fail'):
            return False, 'base-' + real[0], real[1:]
        ast = norm(real[1]) if real[0] == 'ok' else None
        known_hit = None
        for w, e in engines.items():
            other = guarded(e, t)
            if other[0] != real[0]:
                if w in tol:
                    known_hit = tol[w]
                    continue
                return False, f'{w}-outcome', [real[0], other[0], other[1] if other[0] == 'exception' else None]
            if real[0] == 'ok' and (not (norm(other[1]) == ast) or other[2] != real[2]):
                if w in tol:
                    known_hit = tol[w]
                    continue
                return False, f'{w}-ast', [skel(ast), skel(norm(other[1]))]
        if known_hit:
            return True, 'known:' + known_hit, None
        if real[0] == 'fail':
            return True, ('fail' if real[1] > 0 else 'triv:fail0'), [real[1]]
        return True, 'ok', [real[2], skel(ast)]

    def explain(args):
        t = mktext(args)
        out = [f'grammar:\n{gtext}text={t!r}', f'original = {guarded(base, t)!r}']
        for w, e in engines.items():
            out.append(f'{w} = {guarded(e, t)!r}')
            if w == 'pretty':
                out.append('pretty text:\n' + model.pretty())
        out.append(f'broken={broken}')
        return '\n'.join(out)

    body.explain = explain
    warm = spec.get('warm') or ['', 'a', 'ab', 'a b', 'b', 'a,a', 'aa', 'ba', ' a ', 'abc', 'a,b', 'a+a', '(a)', 'if', 'a/b', "a'b", 'a\\b', 'a"', 'x', 'a1', '1', 'a;', 'a#b']
    ws = [tuple(map(ord, w)) for w in warm if len(w) == n]
    for pad in ('a', 'b', ' '):
        ws.append(tuple(map(ord, ('ab'[:n]).ljust(n, pad))))
    body.warm = list(dict.fromkeys(ws))
    return body
