"""Run-time half of every obligation: executes the body symbolically (under CrossHair) and then natively on a
solver-chosen witness of the same path (DESIGN §2.3 item 1)."""
from __future__ import annotations

import json
import os
import sys
import time

STATE = {
    'paths': 0,            # symbolic paths that reached the end of the body
    'witnessed': 0,        # paths with a native witness run
    'artifacts': 0,        # symbolic and native digests disagree
    'native_fail': 0,
    'sym_fail': 0,
    'no_model': 0,
    'log': None,
    'tags': {},            # outcome tag -> count (native)
    'digests': set(),      # distinct native digests
}


class Hang(BaseException):
    """raised by the native-run deadline: the code under test did not come back (C08: "or hang"; C03/C16: "terminates")"""


NATIVE_DEADLINE = float(os.environ.get('VT_NATIVE_DEADLINE', '90'))


class _deadline:
    """wall-clock limit for ONE native run of a body (warm-up inputs and per-path witnesses), main thread only"""

    def __init__(self, seconds):
        self.seconds = seconds
        self.armed = False

    def __enter__(self):
        import signal
        import threading
        if self.seconds > 0 and threading.current_thread() is threading.main_thread():
            def on_alarm(signum, frame):
                raise Hang()
            try:
                self.old = signal.signal(signal.SIGALRM, on_alarm)
                signal.setitimer(signal.ITIMER_REAL, self.seconds)
                self.armed = True
            except (ValueError, OSError):
                self.armed = False
        return self

    def __exit__(self, *a):
        if self.armed:
            import signal
            signal.setitimer(signal.ITIMER_REAL, 0)
            signal.signal(signal.SIGALRM, self.old)
        return False


def _log(rec):
    f = STATE['log']
    if f is None:
        path = os.environ.get('VT_WITNESS_LOG')
        if not path:
            return
        f = STATE['log'] = open(path, 'a')
    try:
        line = json.dumps(rec, default=repr)
    except BaseException:  # noqa: BLE001  (a digest holding symbolic values, serialised with tracing off)
        rec = {k: v for k, v in rec.items() if k not in ('sym', 'dg')}
        rec['dg'] = '<unserialisable digest>'
        line = json.dumps(rec, default=repr)
    f.write(line + '\n')
    f.flush()


def _dumps(x) -> str:
    """digest -> text; a digest that still holds symbolic values (a failing path's details) must not break the harness"""
    try:
        return json.dumps(x, default=repr, sort_keys=True)
    except BaseException:  # noqa: BLE001  (called with tracing off: repr() of a symbolic value raises engine-internal errors)
        try:
            return json.dumps([str(x[0]), '<unserialisable digest>'])
        except BaseException:  # noqa: BLE001
            return '["?", "<unserialisable digest>"]'


def mktext(args) -> str:
    t = ''
    for c in args:
        t = t + chr(c)
    return t


def skel(x):
    """Concrete shape of a value: never compares or hashes symbolic characters."""
    if x is None or x is True or x is False:
        return x
    if isinstance(x, dict):
        return {str(k): skel(v) for k, v in x.items()}
    if isinstance(x, (list, tuple)):
        return [skel(v) for v in x]
    if isinstance(x, str):
        return 's'
    if isinstance(x, int):
        return 'i'
    if isinstance(x, float):
        return 'f'
    return type(x).__name__


def _tracing() -> bool:
    try:
        from crosshair.tracers import is_tracing
        return is_tracing()
    except Exception:
        return False


def run(body, args) -> bool:
    """body(args) -> (ok, tag, digest).  ok: the property holds for this input; tag: short outcome class used by the
    vacuity guard; digest: concrete-shaped summary compared between the symbolic and the native run."""
    if not _tracing():
        ok, tag, dg = body(tuple(args))
        return bool(ok)
    from crosshair.tracers import NoTracing
    from crosshair.statespace import context_statespace
    from crosshair.core import CrossHairValue
    import z3
    ok, tag, dg = body(tuple(args))
    sym_ok = True if ok else False
    with NoTracing():
        STATE['paths'] += 1
        space = context_statespace()
        vals = None
        try:
            res = space.solver.check()
            if res == z3.sat:
                m = space.solver.model()
                vals = []
                for a in args:
                    if isinstance(a, CrossHairValue):
                        v = m.eval(a.var, model_completion=True)
                        if z3.is_bool(v):
                            vals.append(bool(z3.is_true(v)))
                        else:
                            vals.append(v.as_long())
                    else:
                        vals.append(a)
        except Exception as e:  # noqa: BLE001
            vals = None
            _log({'k': 'model-error', 'err': repr(e)})
        if vals is None:
            STATE['no_model'] += 1
            if not sym_ok:
                STATE['sym_fail'] += 1
            return sym_ok
        try:
            with _deadline(getattr(body, 'native_deadline', NATIVE_DEADLINE)):
                nok, ntag, ndg = body(tuple(vals))
            nok = bool(nok)
        except Hang:
            nok, ntag, ndg = False, 'hang', f'no answer within {getattr(body, "native_deadline", NATIVE_DEADLINE):.0f} s on a native run'
        except Exception as e:  # noqa: BLE001
            nok, ntag, ndg = False, 'native-exception', repr(e)
        STATE['witnessed'] += 1
        sdg = _dumps([tag, dg])
        nds = _dumps([ntag, ndg])
        match = (sdg == nds) and (sym_ok == nok)
        # a native failure is reported as a violation candidate by itself; an artifact is a disagreement between two passing runs
        if not match and nok and sym_ok:
            STATE['artifacts'] += 1
        if not nok:
            STATE['native_fail'] += 1
        if not sym_ok:
            STATE['sym_fail'] += 1
        STATE['tags'][ntag] = STATE['tags'].get(ntag, 0) + 1
        new = nds not in STATE['digests']
        STATE['digests'].add(nds)
        if new or not match or not nok or not sym_ok:
            _log({'k': 'w', 'args': vals, 'ok': nok, 'tag': ntag, 'dg': ndg, 'sym_ok': sym_ok,
                  'match': match, **({} if match else {'sym': [tag, dg]})})
    return sym_ok and nok


def warm(body, args):
    """Native warm-up run at import: fills caches; a failing warm-up input is a native counterexample."""
    if STATE.get('warm_hang'):
        return True          # one hanging warm-up input is enough: the others would each wait for the deadline again
    try:
        with _deadline(getattr(body, 'native_deadline', NATIVE_DEADLINE)):
            ok, tag, dg = body(tuple(args))
    except Hang:
        ok, tag, dg = False, 'hang', f'no answer within {getattr(body, "native_deadline", NATIVE_DEADLINE):.0f} s on a native run'
        STATE['warm_hang'] = True
    except Exception as e:  # noqa: BLE001
        ok, tag, dg = False, 'native-exception', repr(e)
    STATE['warm'] = STATE.get('warm', 0) + 1
    if not ok:
        STATE['warm_fail'] = STATE.get('warm_fail', 0) + 1
        _log({'k': 'w', 'args': list(args), 'ok': False, 'tag': tag, 'dg': dg, 'sym_ok': None, 'match': True, 'warm': True})
    return ok


def summary():
    out = {k: (len(v) if isinstance(v, set) else v) for k, v in STATE.items() if k != 'log'}
    out['nontrivial'] = sum(1 for d in STATE['digests'] if not str(json.loads(d)[0]).startswith('triv'))
    return out
