"""Deterministic two-thread scheduler for real Python threads (C10: "while other threads parse with the same compiled model").

Exactly one of the two threads runs at any time (baton passing with semaphores).  A thread can be preempted at *switch points*: the
n-th trace event ('call', or 'call'+'line') of code that lives under the tatsu package, counted per thread.  A schedule is a list of
(thread index, event count) pairs, in the order in which they are to happen: thread `who` runs until it has seen `count` events, then the
other thread runs, and so on; when the list is used up (or a thread ends) the running thread runs to its end and the other one follows.
The scheduler is plain Python and runs natively: the *choice of the switch points* is what the solver enumerates (symbolic selectors in
the obligation), this module only executes one chosen schedule against the real code.
"""
from __future__ import annotations

import os
import sys
import threading


class Deadlock(Exception):
    pass


def run_schedule(thunks, schedule, granularity='call', prefix=None, timeout=60.0, first=0, line_files=()):
    """thunks: two zero-argument callables; schedule: [(who, count), ...]; -> (results, events) where results[i] is ('ok', value) or
    ('exc', exception) and events[i] the number of switch-point events thread i went through"""
    if prefix is None:
        import tatsu
        prefix = os.path.dirname(os.path.abspath(tatsu.__file__)) + os.sep
    sems = [threading.Semaphore(0), threading.Semaphore(0)]
    counts = [0, 0]
    done = [False, False]
    results = [None, None]
    pending = list(schedule)
    want_line = granularity == 'line'
    # granularity 'hot': call events everywhere, line events too inside the files named by line_files (modules that own state shared between parses)
    hot = tuple(line_files) if granularity in ('hot', 'only', 'onlywide') else ()
    # granularity 'only': call and line events inside the files named by line_files and nowhere else (a long computation — a whole grammar
    # compilation — scheduled at the lines that touch process-wide state)
    only = granularity in ('only', 'onlywide')
    state = {'dead': False}

    def handoff(me):
        other = 1 - me
        if done[other]:
            return
        sems[other].release()
        if not sems[me].acquire(timeout=timeout):
            state['dead'] = True
            raise Deadlock(f'thread {me} was never resumed')

    def make_tracer(me):
        def local(frame, event, arg):
            if event == 'line':
                tick()
            return local

        def tick():
            counts[me] += 1
            while pending and pending[0][0] == me and pending[0][1] <= counts[me]:
                pending.pop(0)
                handoff(me)

        def tracer(frame, event, arg):
            if event != 'call' or not frame.f_code.co_filename.startswith(prefix):
                return None
            if only and not frame.f_code.co_filename.endswith(hot):
                return None
            tick()
            if want_line or (hot and frame.f_code.co_filename.endswith(hot)):
                return local
            return None
        return tracer

    def runner(me):
        if not sems[me].acquire(timeout=timeout):
            results[me] = ('exc', Deadlock(f'thread {me} never started'))
            done[me] = True
            return
        # a switch point at count 0: the thread yields before doing anything
        while pending and pending[0][0] == me and pending[0][1] <= 0:
            pending.pop(0)
            handoff(me)
        sys.settrace(make_tracer(me))
        try:
            results[me] = ('ok', thunks[me]())
        except Exception as e:  # noqa: BLE001
            results[me] = ('exc', e)
        finally:
            sys.settrace(None)
            done[me] = True
            # drop switch points of a finished thread and wake the other one
            pending[:] = [p for p in pending if p[0] != me]
            sems[1 - me].release()

    ts = [threading.Thread(target=runner, args=(i,), daemon=True) for i in (0, 1)]
    for t in ts:
        t.start()
    sems[first].release()
    for t in ts:
        t.join(timeout * 2)
    if any(t.is_alive() for t in ts) or state['dead']:
        raise Deadlock('schedule did not complete')
    return results, counts
