"""CrossHair plugin: make isinstance() work for typing.Protocol classes that have
non-method members (CrossHair rewrites isinstance(o, T) to issubclass(type(o), T), which
typing rejects for such protocols)."""
import builtins
from crosshair import core
from crosshair.tracers import NoTracing
from crosshair.libimpl import builtinslib

_orig = builtinslib._isinstance
_real_isinstance = builtins.isinstance

def _has_data_protocol(types):
    if type(types) is tuple:
        return any(_has_data_protocol(t) for t in types)
    return getattr(types, '_is_protocol', False) and bool(getattr(types, '__non_callable_proto_members__', None) or True)

def _isinstance(obj, types):
    with NoTracing():
        proto = _has_data_protocol(types)
    if not proto:
        return _orig(obj, types)
    try:
        return _orig(obj, types)
    except TypeError:
        with NoTracing():
            return _real_isinstance(obj, types)

core._PATCH_REGISTRATIONS[isinstance] = _isinstance

# --- frozenset containment without hashing (set-literal constants in `x in {...}`) ---
import dis
from crosshair.tracers import TracingModule, frame_stack_read, frame_stack_write
from crosshair.core import CrossHairValue
from crosshair.simplestructs import LinearSet

class FrozenSetContainment(TracingModule):
    opcodes_wanted = frozenset([dis.opmap["CONTAINS_OP"]])
    def trace_op(self, frame, codeobj, codenum):
        item = frame_stack_read(frame, -2)
        if not isinstance(item, CrossHairValue):
            return
        container = frame_stack_read(frame, -1)
        if type(container) is frozenset:
            frame_stack_write(frame, -1, LinearSet(list(container)))
        elif type(container) is dict and not any(isinstance(k, CrossHairValue) for k in container):
            # membership of a symbolic key in a dict with concrete keys: a disjunction of equalities instead of a hash
            frame_stack_write(frame, -1, LinearSet(list(container)))

core.register_opcode_patch(FrozenSetContainment())

# --- never short-circuit contract-bearing callees (heuristic that yields UNKNOWN paths) ---
_orig_consider = core.consider_shortcircuit
def _consider(fn, sig, bound, subconditions, allow_interpretation):
    if allow_interpretation:
        return None
    return _orig_consider(fn, sig, bound, subconditions, allow_interpretation)
core.consider_shortcircuit = _consider

# --- no sub-contract enforcement inside the code under test (TatSu has no contracts) ---
from crosshair import enforce as _enforce
_enforce.EnforcedConditions.trace_call = lambda self, frame, fn, binding_target: None


# --- dict(...) with concrete keys stays a real dict (CrossHair otherwise returns a ShellMutableMap proxy that
#     `match ... case dict()` / C-level consumers do not recognise) ---
_orig_dict_patch = core._PATCH_REGISTRATIONS[dict]
_real_dict = dict
def _dict_patch(*a, **kw):
    if len(a) > 1:
        return _orig_dict_patch(*a, **kw)
    if a:
        arg = a[0]
        with NoTracing():
            symbolic_arg = _real_isinstance(arg, CrossHairValue)
            is_map = hasattr(arg, 'keys')
        if symbolic_arg:
            return _orig_dict_patch(*a, **kw)
        if is_map:
            pairs = [(k, arg[k]) for k in arg.keys()]
        else:
            pairs = [tuple(p) if not _real_isinstance(p, tuple) else p for p in arg]
    else:
        pairs = []
    with NoTracing():
        ok = all(_real_isinstance(p, tuple) and len(p) == 2 and not _real_isinstance(p[0], CrossHairValue) for p in pairs) \
            and not any(_real_isinstance(k, CrossHairValue) for k in kw)
        if ok:
            d = _real_dict(pairs)
            d.update(kw)
            return d
    return _orig_dict_patch(pairs, **kw)
core._PATCH_REGISTRATIONS[dict] = _dict_patch

# --- re.Match.groups(default=...) on CrossHair's symbolic match objects ---
from crosshair.libimpl import relib as _relib
def _groups(self, default=None):
    out = []
    for i in range(1, len(self._groups)):
        g = self.group(i)
        out.append(default if g is None else g)
    return tuple(out)
_relib._Match.groups = _groups

# --- regex back-references (GROUPREF) in the symbolic matcher ---
from crosshair.tracers import ResumedTracing
try:
    from re._constants import GROUPREF as _GROUPREF
    from re._parser import SubPattern as _SubPattern
except ImportError:  # pragma: no cover
    from sre_constants import GROUPREF as _GROUPREF
    from sre_parse import SubPattern as _SubPattern
_BACKREF = object()
_orig_imp = _relib._internal_match_patterns

def _subst_backref(tree, gnum, span):
    if _real_isinstance(tree, tuple) and len(tree) == 2 and tree[0] is _GROUPREF and tree[1] == gnum:
        return (_BACKREF, span)
    if _real_isinstance(tree, _SubPattern):
        return [_subst_backref(x, gnum, span) for x in tree.data]
    if _real_isinstance(tree, list):
        return [_subst_backref(x, gnum, span) for x in tree]
    if _real_isinstance(tree, tuple):
        return tuple(_subst_backref(x, gnum, span) for x in tree)
    return tree

def _imp(top_patterns, flags, string, offset, allow_empty=True, ord=ord, chr=chr):
    if len(top_patterns) > 0:
        first = top_patterns[0]
        op, arg = first
        if op is _relib._END_GROUP_MARKER:
            gnum, begin = arg
            rest = [_subst_backref(x, gnum, (begin, offset)) for x in list(top_patterns)[1:]]
            top_patterns = [first] + rest
        elif op is _BACKREF:
            b, e = arg
            n = e - b
            with ResumedTracing():
                strlen = len(string)
                if offset + n > strlen:
                    return None
                for i in range(n):
                    if ord(string[offset + i]) != ord(string[b + i]):
                        return None
            prefix = _relib._MatchPart([(offset, offset + n)])
            suffix = _imp(list(top_patterns)[1:], flags, string, offset + n,
                          allow_empty if n == 0 else True, ord=ord, chr=chr)
            if suffix is None:
                return None
            return prefix._add_match(suffix)
    return _orig_imp(top_patterns, flags, string, offset, allow_empty, ord=ord, chr=chr)
_relib._internal_match_patterns = _imp


# --- solver statistics: queries discharged and solver time (reported in the evidence) ---
import time as _time
import z3 as _z3
SOLVER_STATS = {'queries': 0, 'seconds': 0.0, 'unknown': 0}
_orig_check = _z3.Solver.check
def _counted_check(self, *a, **kw):
    t0 = _time.perf_counter()
    try:
        r = _orig_check(self, *a, **kw)
    finally:
        SOLVER_STATS['queries'] += 1
        SOLVER_STATS['seconds'] += _time.perf_counter() - t0
    if r == _z3.unknown:
        SOLVER_STATS['unknown'] += 1
    return r
_z3.Solver.check = _counted_check
