"""Replay a counterexample natively (no CrossHair): python -m vt.replay <replay.json>
exit 0: property holds on this input; exit 1: violated (prints what was observed); exit 2: harness error."""
from __future__ import annotations

import importlib
import json
import sys


def main():
    import os
    os.environ['VT_REPLAY'] = '1'
    rec = json.load(open(sys.argv[1]))
    mod, fn = rec['factory'].split(':')
    try:
        body = getattr(importlib.import_module(mod), fn)(rec['spec'])
    except Exception as e:  # noqa: BLE001
        print('REPLAY ' + json.dumps({'ok': None, 'tag': 'factory-error', 'dg': repr(e)}))
        import traceback
        traceback.print_exc()
        return 2
    from vt.harness import Hang, NATIVE_DEADLINE, _deadline
    try:
        with _deadline(getattr(body, 'native_deadline', NATIVE_DEADLINE)):
            ok, tag, dg = body(tuple(rec['args']))
    except Hang:
        ok, tag, dg = False, 'hang', f'no answer within {getattr(body, "native_deadline", NATIVE_DEADLINE):.0f} s'
        body.explain = None
    except Exception as e:  # noqa: BLE001
        ok, tag, dg = False, 'native-exception', repr(e)
    explain = getattr(body, 'explain', None)
    if explain is not None:
        try:
            print(explain(tuple(rec['args'])))
        except Exception as e:  # noqa: BLE001
            print('explain failed:', repr(e))
    print('REPLAY ' + json.dumps({'ok': bool(ok), 'tag': tag, 'dg': dg}, default=repr))
    return 0 if ok else 1


if __name__ == '__main__':
    sys.exit(main())
