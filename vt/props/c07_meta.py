META = {
    'level': 'other',
    'text': 'Symbolic execution of the real parse partitions all texts up to the bound into parse shapes (confirmed over all paths); for each shape the model-building '
            'parse runs natively on the solver-chosen witness and the AST/object-model correspondence, class hierarchy, children/parent relation, walkers and '
            'generated-model classes are checked. Node construction and traversal contain `match` statements that the symbolic engine cannot intercept, so one native '
            'check per parse shape is the honest reach of this technique here.',
    'note': 'The structural relation is checked once per shape, not for every text of the shape. Trusted: the plain AST as reference; CrossHair path partition validated by '
            'native re-execution. Known finding F29 (class synthesis keyed by name only) identified by its witness.',
    'technique': 'symbolic execution of the parse partitions texts into shapes (CrossHair/z3, exhaustive within the bound); the object-model relation is checked natively on the solver-chosen witness of each shape',
}
