META = {
    'level': 'other',
    'text': 'Bounded symbolic differential verification of action dispatch: real model == generated parser == reference evaluator with the same actions, on every text up '
            'to the bound, over a matrix of grammars x semantics objects (incl. each exception type), with the action call logs compared. How often and with what '
            'argument an action runs depends on backtracking and memoization for the input; exceptions thrown by actions travel through handlers written for '
            'internal lookups.',
    'note': 'Trusted: vt/refpeg.py rule hook (action after the rule body, FailedSemantics = ordinary failure, anything else propagates); CrossHair/z3 models validated '
            'per path natively.',
}
