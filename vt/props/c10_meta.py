META = {
    'level': 'other',
    'text': 'History exploration with solver-chosen call selectors against a fresh-interpreter oracle (every history of the bounded length over the call pool), plus bounded '
            'symbolic verification that a parse never alters the model or its configuration (all texts up to the bound). Tests cannot see that an earlier call changes what a '
            'later identical call returns; the oracle replays the same call without the history.',
    'note': 'Thread interleavings are NOT covered (no engine here explores Python thread schedules); the property is claimed for sequential histories and the non-mutation '
            'invariant only. Known findings F8 (compile cache key / mutated cached model), F11, F29 identified by signature.',
    'technique': 'solver-chosen call selectors (CrossHair/z3 forks over every history within the bound), each history executed natively in its own interpreter against a fresh-interpreter oracle; symbolic execution of parses for the non-mutation invariant',
}
