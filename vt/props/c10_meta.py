META = {
    'level': 'other',
    'text': 'History exploration with solver-chosen call selectors against a fresh-interpreter oracle (every history of the bounded length over the call pool), bounded '
            'symbolic verification that a parse never alters the model or its configuration (all texts up to the bound), and context-bounded thread schedules: two real '
            'threads parse with one compiled model under a deterministic scheduler whose preemption point is a solver-chosen selector ranging over every call event of the '
            'first thread (one preemption window, both roles). Tests cannot see that an earlier call or a concurrent parse changes what a call returns; the oracles replay '
            'the same call without the history / sequentially.',
    'note': 'Thread schedules are covered within a context bound of one preemption window at call-event (thorough: call+line event) granularity for two threads; finer '
            'interleavings, more threads, concurrent compile() calls and free-threaded builds are outside. Known findings F8 (compile cache key / mutated cached model, '
            'exact signature), F11, F29 identified by signature; F38 (race of two first parses in Grammar.optimized) was found by the schedule obligations and repaired.',
    'technique': 'solver-chosen selectors (CrossHair/z3 forks over every history / every preemption point within the bound), each history executed natively in its own interpreter '
                 'against a fresh-interpreter oracle and each schedule executed on real threads under a deterministic scheduler; symbolic execution of parses for the non-mutation invariant',
}
