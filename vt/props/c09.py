"""C09 — whitespace, comments, nameguard and case rules are applied uniformly."""
from __future__ import annotations

from ..grammars import A, C, EOF_, N, OPT, P, REP, S, T
from ..harness import _tracing, mktext, skel
from ..known import tolerated
from ..runner import Ob

UNI = 0x110000

# ---------------- A: layout invariance (metamorphic, reference-free) ----------------
TEMPLATES = {
    # name: (grammar text, lexemes, single-space layout must be accepted)
    'tokens_rule_eof': ("start: 'a' 'b' r $ ;\nr: 'c' ;\n", ['a', 'b', 'c']),
    'closure_join': ("start: ','.{ item }+ $ ;\nitem: 'a' | 'b' ;\n", ['a', ',', 'b']),
    'named_const': ("start: x='a' y=`7` z=r $ ;\nr: 'b' ;\n", ['a', 'b']),
    'comments': ("@@comments :: /\\(\\*.*?\\*\\)/\n@@eol_comments :: /#[^\\n]*/\nstart: 'a' {'b'} $ ;\n", ['a', 'b', 'b']),
    # punctuation tokens that are prefixes of the comment openers: a comment right after a token (no whitespace before it) is still a comment
    'comments_punct': ("@@comments :: /\\(\\*.*?\\*\\)/\n@@eol_comments :: /#[^\\n]*/\nstart: 'f' {'(' | ')' | '*' | '#' | 'x'} $ ;\n", ['f', '(', 'x', ')']),
    'void_opt': ("start: 'a' () ['b'] 'c' $ ;\n", ['a', 'b', 'c']),
    'upper_rule_token': ("start: 'a' Tok 'c' $ ;\nTok: 'b' ;\n", ['a', 'b', 'c']),   # tokens inside an upper-case rule still skip whitespace themselves
}
COMMENT_RUNS = ['', '(*q*)', '#q\n', '(*x*)#q\n', '# \n(*x*)', '(**) (*y*)']


def make_layout(spec):
    """text = w0 t1 w1 t2 ... tn wn ; every wi is `spec['runs'][i]` symbolic whitespace code points (optionally with a comment in the
    middle, chosen by a selector): the AST equals the AST of the single-space layout."""
    from ..pegbody import Engine, norm
    gtext, lexemes = TEMPLATES[spec['template']]
    runs = spec['runs']               # number of symbolic characters in each of the len(lexemes)+1 runs
    use_comments = spec.get('comments', False)
    sel_runs = spec.get('sel_runs', list(range(len(runs))))     # which runs get a comment selector
    eng = Engine(gtext)
    base = eng.parse(' '.join(lexemes))
    assert base[0] == 'ok', (gtext, lexemes, base)
    base_ast = norm(base[1])
    if spec.get('input') == 'Buffer':
        # the legacy input class: a Buffer object made by the caller carries its own configuration (the comment patterns are given to it)
        from tatsu.input.buffer import Buffer
        bsettings = {'comments': '\\(\\*.*?\\*\\)', 'eol_comments': '#[^\\n]*'} if spec['template'] == 'comments' else {}
        real_parse = eng.parse
        eng = type('BufferEngine', (), {'parse': staticmethod(lambda t: real_parse(Buffer(t, **bsettings)))})()

    def build(args):
        i = 0
        parts = []
        for k, r in enumerate(runs):
            chars = [chr(a) for a in args[i:i + r]]
            i += r
            run = ''
            for ch in chars:
                run = run + ch
            if use_comments and k in sel_runs:
                sel = args[len(args) - len(sel_runs) + sel_runs.index(k)]
                c = COMMENT_RUNS[0]
                for j in range(len(COMMENT_RUNS)):
                    if sel == j:
                        c = COMMENT_RUNS[j]
                run = run[:1] + c + run[1:] if r else c
            parts.append(run)
        return parts

    def body(args):
        parts = build(args)
        nsym = sum(runs)
        for a in args[:nsym]:
            if not chr(a).isspace():
                return True, 'triv:not-whitespace', None
        text = parts[0]
        for k, lx in enumerate(lexemes):
            text = text + lx + parts[k + 1]
        try:
            got = eng.parse(text)
        except Exception as e:  # noqa: BLE001
            return False, 'exception', type(e).__name__ + ': ' + str(e)[:80]
        if got[0] != 'ok':
            return False, 'layout-rejected', [got[1]]
        if not (norm(got[1]) == base_ast):
            return False, 'layout-changes-ast', [skel(norm(got[1])), skel(base_ast)]
        return True, 'ok', [len(text) if not _tracing() else None][:0]

    def explain(args):
        parts = build(args)
        text = parts[0]
        for k, lx in enumerate(lexemes):
            text = text + lx + parts[k + 1]
        return f'grammar:\n{gtext}text={text!r}\nparse={eng.parse(text)!r}\nsingle-space layout={base!r}'

    body.explain = explain
    nsel = len(sel_runs) if use_comments else 0
    body.warm = [tuple([32] * sum(runs) + [0] * nsel), tuple([10] * sum(runs) + [1] * nsel), tuple([9] * sum(runs) + [2] * nsel)]
    return body


def make_noskip(spec):
    """twin: whitespace is NOT skipped before a pattern or at the entry of an upper-case rule."""
    from ..pegbody import Engine
    gtext = {'pattern': "start: 'a' /b/ $ ;\n", 'upper_rule': "start: 'a' R $ ;\nR: /b/ ;\n", 'lower_rule': "start: 'a' r $ ;\nr: /b/ ;\n"}[spec['kind']]
    skips = spec['kind'] == 'lower_rule'
    eng = Engine(gtext)

    def body(args):
        w = mktext(args)
        for ch in w:
            if not ch.isspace():
                return True, 'triv:not-whitespace', None
        try:
            got = eng.parse('a' + w + 'b')
        except Exception as e:  # noqa: BLE001
            return False, 'exception', repr(e)[:80]
        if skips:
            return (got[0] == 'ok'), ('skipped' if got[0] == 'ok' else 'not-skipped-before-lower-rule'), None
        if got[0] == 'ok':
            return False, 'whitespace-skipped-before-' + spec['kind'], None
        return True, 'not-skipped', None

    body.warm = [tuple([32] * spec['n']), tuple([10] * spec['n'])]
    body.explain = lambda args: f'grammar:\n{gtext}text={"a" + mktext(args) + "b"!r} -> {eng.parse("a" + mktext(args) + "b")!r}'
    return body


# ---------------- B: nameguard / namechars / ignorecase against the reference ----------------
B_GRAMMARS = {
    'guard': [('start', S(T('ab'), C('tail'))), ('tail', A(T('-c'), P('(?s).?')))],
    'guard_choice': [('start', A(S(T('a'), T('b')), S(T('ab'), OPT(T('-'))), P('(?s)..')))],
    'case': [('start', S(T('ab'), OPT(P('[a-c]')), OPT(T('C'))))],
}
B_SETTINGS = []
for ng in (None, True, False):
    for nc in ('', '-$'):
        for ic in (False, True):
            B_SETTINGS.append((ng, nc, ic))


# ---------------- C: configuration layering ----------------
LAYER_PROBES = {
    # setting: (grammar text, [value1, value2], probe(model_parse) -> observed effective value class, default class)
    'ignorecase': ("start: 'a' $ ;\n", [True, False]),
    'nameguard': ("start: 'a' 'b' $ ;\n", [True, False]),
    'whitespace': ("start: 'a' 'b' $ ;\n", ['_+', '']),
    'namechars': ("start: 'a' /-b/ $ ;\n", ['-', '+']),
    'parseinfo': ("start: x='a' $ ;\n", [True, False]),
    'comments': ("start: 'a' 'b' $ ;\n", ['%[^%]*%', '![^!]*!']),
    'eol_comments': ("start: 'a' 'b' $ ;\n", [';[^\\n]*', '~[^\\n]*']),
}


def observe(setting, parse):
    """classify the effective value of `setting` from behaviour only; parse(text) -> ('ok', ast) | ('fail',)"""
    if setting == 'ignorecase':
        return True if parse('A')[0] == 'ok' else False
    if setting == 'nameguard':
        return False if parse('ab')[0] == 'ok' else True
    if setting == 'whitespace':
        if parse('a_b')[0] == 'ok':
            return '_+'
        return 'default' if parse('a  b')[0] == 'ok' else ''
    if setting == 'namechars':
        if parse('a-b')[0] != 'ok':
            return '-'
        return 'other'
    if setting == 'parseinfo':
        r = parse('a')
        return bool(r[0] == 'ok' and isinstance(r[1], dict) and r[1].get('parseinfo') is not None)
    if setting == 'comments':
        if parse('a%q%b')[0] == 'ok':
            return '%[^%]*%'
        return '![^!]*!' if parse('a!q!b')[0] == 'ok' else 'none'
    if setting == 'eol_comments':
        if parse('a;q\nb')[0] == 'ok':
            return ';[^\\n]*'
        return '~[^\\n]*' if parse('a~q\nb')[0] == 'ok' else 'none'
    raise ValueError(setting)


def expected_class(setting, value):
    """what observe() reports when `value` is the effective setting (None = built-in default)"""
    if setting == 'ignorecase':
        return bool(value)
    if setting == 'nameguard':
        return True if value is None else bool(value)
    if setting == 'whitespace':
        return 'default' if value is None else value
    if setting == 'namechars':
        return '-' if value == '-' else 'other'
    if setting == 'parseinfo':
        return bool(value)
    return 'none' if value is None else value


def directive_text(setting, value):
    if setting == 'whitespace' and value == '':
        return '@@whitespace :: None\n'      # (an empty regex // would be read as a comment)
    if setting in ('whitespace', 'comments', 'eol_comments'):
        return f'@@{setting} :: /{value}/\n'
    if setting == 'namechars':
        return f"@@namechars :: '{value}'\n"
    return f'@@{setting} :: {value}\n'


def make_layers(spec):
    import tatsu
    from tatsu.exceptions import FailedParse
    setting = spec['setting']
    gtext, values = LAYER_PROBES[setting]
    known = tolerated('C09')

    def native(sel):
        comp, direc, pars = sel      # 0 absent, 1 value1, 2 value2
        g = (directive_text(setting, values[direc - 1]) if direc else '') + gtext
        ckw = {setting: values[comp - 1]} if comp else {}
        pkw = {setting: values[pars - 1]} if pars else {}
        try:
            model = tatsu.compile(g, name=f'L{comp}{direc}{pars}', **ckw)
        except Exception as e:  # noqa: BLE001
            if comp and 'F11' in known:
                return True, 'known:F11', [setting, 'compile raised ' + type(e).__name__, ckw]
            return False, 'compile-exception', [type(e).__name__ + ': ' + str(e)[:80], ckw]

        def parse(t):
            try:
                return ('ok', model.parse(t, **pkw))
            except FailedParse:
                return ('fail',)
        try:
            got = observe(setting, parse)
        except Exception as e:  # noqa: BLE001
            return False, 'parse-exception', type(e).__name__ + ': ' + str(e)[:80]
        eff = values[pars - 1] if pars else (values[direc - 1] if direc else (values[comp - 1] if comp else None))
        want = expected_class(setting, eff)
        if got == want:
            return True, 'layered', [comp, direc, pars]
        # known finding F11: a compile-time setting never reaches the compiled model
        eff_without_compile = values[pars - 1] if pars else (values[direc - 1] if direc else None)
        if comp and not pars and not direc and got == expected_class(setting, eff_without_compile) and 'F11' in known:
            return True, 'known:F11', [setting, f'compile-time {values[comp - 1]!r} ignored: behaves as {got!r}']
        return False, 'wrong-layer', [setting, [comp, direc, pars], repr(got), repr(want)]

    cache = {}

    def body(args):
        sel = []
        for a in args:
            v = 0
            for i in range(3):
                if a == i:
                    v = i
            sel.append(v)
        if _tracing():
            from crosshair.tracers import NoTracing
            with NoTracing():
                cache.clear()
                cache[tuple(sel)] = r = native(sel)
                return r
        return cache.get(tuple(sel)) or native(sel)

    body.explain = lambda args: repr(native(list(args)))
    body.warm = [(0, 0, 0), (1, 2, 1)]
    return body


def make_crossconfig(spec):
    """ONE process, several configurations in turn: the same text is parsed under each configuration of spec['sequence'] (settings of the real side +
    settings of the reference), each time compared with the reference evaluator under that configuration.  Name/whitespace classification must be
    that of the configuration in effect for the parse at hand, whatever an earlier parse in the process used."""
    from ..pegbody import make_peg
    bodies = []
    for settings, refs in spec['sequence']:
        bodies.append(make_peg({**spec, 'settings': settings, 'ref': refs}))

    def body(args):
        tags = []
        for i, b in enumerate(bodies):
            ok, tag, dg = b(args)
            if not ok:
                return False, f'config{i}:{tag}', dg
            tags.append(tag)
        return True, ('ok' if 'ok' in tags else tags[0]), tags

    body.explain = lambda args: '\n---\n'.join(f'configuration {i}: {spec["sequence"][i][0]}\n' + b.explain(args) for i, b in enumerate(bodies))
    body.warm = bodies[0].warm
    return body


def plan(tier, seed):
    obs = []
    # A
    layouts = {
        'tokens_rule_eof': [[0, 1, 1, 0], [1, 1, 1, 0], [0, 2, 1, 0]] if tier == 'quick' else [[0, 1, 1, 0], [1, 1, 1, 1], [0, 2, 1, 0], [2, 1, 1, 2], [0, 1, 2, 1], [1, 2, 2, 0]],
        'closure_join': [[0, 1, 1, 0], [1, 0, 0, 1]] if tier == 'quick' else [[0, 1, 1, 0], [1, 0, 0, 1], [1, 1, 1, 1], [0, 2, 0, 2]],
        'named_const': [[1, 1, 1]] if tier == 'quick' else [[1, 1, 1], [0, 2, 0], [2, 1, 2]],
        'void_opt': [[0, 1, 1, 1]] if tier == 'quick' else [[0, 1, 1, 1], [1, 1, 1, 0], [0, 2, 1, 0]],
        'upper_rule_token': [[0, 1, 1, 0]] if tier == 'quick' else [[0, 1, 1, 0], [1, 1, 1, 1]],
    }
    for tpl, ls in layouts.items():
        for runs in ls:
            nm = ''.join(map(str, runs))
            obs.append(Ob(name=f'A_{tpl}_{nm}', factory='vt.props.c09:make_layout', spec={'template': tpl, 'runs': runs, 'program': tpl},
                          params=[(f'w{i}', 0, UNI) for i in range(sum(runs))], budget=(300 if tier == 'quick' else 1500), group='A', require_tags=('ok',)))
    # comment selectors: a run between two tokens always keeps at least one whitespace character (zero-width runs only at the ends)
    cl = [([0, 1, 1, 0], [1, 2])] if tier == 'quick' else [([0, 1, 1, 0], [1, 2]), ([1, 1, 1, 0], [0, 1]), ([0, 1, 1, 1], [2, 3])]
    for runs, sel_runs in cl:
        for first in range(len(COMMENT_RUNS)):     # one obligation per comment shape of the first selected run
            nm = ''.join(map(str, runs)) + '_s' + ''.join(map(str, sel_runs)) + f'_c{first}'
            obs.append(Ob(name=f'A_comments_{nm}', factory='vt.props.c09:make_layout', spec={'template': 'comments', 'runs': runs, 'comments': True, 'sel_runs': sel_runs, 'program': 'comments'},
                          params=[(f'w{i}', 0, UNI) for i in range(sum(runs))] + [('s0', first, first + 1), ('s1', 0, len(COMMENT_RUNS))],
                          budget=300 if tier == 'quick' else 1500, group='A', require_tags=('ok',)))
    # the same invariance through the legacy Buffer input class (BufferCursor.next_token / eat_whitespace / eat_comments)
    for tpl, runs in ((('tokens_rule_eof', [0, 1, 1, 0]), ('closure_join', [1, 1, 0, 0])) if tier == 'quick' else
                      (('tokens_rule_eof', [0, 1, 1, 0]), ('tokens_rule_eof', [1, 2, 1, 1]), ('closure_join', [1, 1, 1, 1]), ('void_opt', [0, 1, 1, 1]), ('upper_rule_token', [0, 1, 1, 0]))):
        nm = ''.join(map(str, runs))
        obs.append(Ob(name=f'A_buffer_{tpl}_{nm}', factory='vt.props.c09:make_layout', spec={'template': tpl, 'runs': runs, 'program': tpl, 'input': 'Buffer'},
                      params=[(f'w{i}', 0, UNI) for i in range(sum(runs))], budget=(300 if tier == 'quick' else 1500), group='A-buffer', require_tags=('ok',)))
    for first in ((1, 3) if tier == 'quick' else range(1, len(COMMENT_RUNS))):
        runs, sel_runs = [0, 1, 1, 0], [1, 2]
        nm = ''.join(map(str, runs)) + f'_c{first}'
        obs.append(Ob(name=f'A_buffer_comments_{nm}', factory='vt.props.c09:make_layout', spec={'template': 'comments', 'runs': runs, 'comments': True, 'sel_runs': sel_runs, 'program': 'comments', 'input': 'Buffer'},
                      params=[(f'w{i}', 0, UNI) for i in range(sum(runs))] + [('s0', first, first + 1), ('s1', 0, len(COMMENT_RUNS))],
                      budget=300 if tier == 'quick' else 1500, group='A-buffer', require_tags=('ok',)))
    # comments that start exactly where the previous token ended (zero-width run before the comment), in front of punctuation tokens
    for runs, sel_runs in (([0, 0, 1, 1, 0], [1, 3]),) if tier == 'quick' else (([0, 0, 1, 1, 0], [1, 3]), ([0, 0, 0, 0, 1], [2, 4]), ([1, 0, 0, 0, 0], [1, 2])):
        for first in range(1, len(COMMENT_RUNS)):
            nm = ''.join(map(str, runs)) + '_s' + ''.join(map(str, sel_runs)) + f'_c{first}'
            obs.append(Ob(name=f'A_comments_punct_{nm}', factory='vt.props.c09:make_layout', spec={'template': 'comments_punct', 'runs': runs, 'comments': True, 'sel_runs': sel_runs, 'program': 'comments_punct'},
                          params=[(f'w{i}', 0, UNI) for i in range(sum(runs))] + [('s0', first, first + 1), ('s1', 0, len(COMMENT_RUNS))],
                          budget=300 if tier == 'quick' else 1500, group='A', require_tags=('ok',)))
    for kind in ('pattern', 'upper_rule', 'lower_rule'):
        for n in (1, 2):
            obs.append(Ob(name=f'A_noskip_{kind}_{n}', factory='vt.props.c09:make_noskip', spec={'kind': kind, 'n': n, 'program': kind}, params=[(f'w{i}', 0, UNI) for i in range(n)],
                          budget=200, group='A-twin', require_tags=('skipped',) if kind == 'lower_rule' else ('not-skipped',)))
    # B
    maxn = 3 if tier == 'quick' else 4
    for gn, rules in B_GRAMMARS.items():
        for ng, nc, ic in B_SETTINGS:
            if tier == 'quick' and gn == 'guard_choice' and (nc or ic):
                continue
            if tier == 'quick' and gn == 'guard' and ic and ng is not None:
                continue
            if gn == 'case' and (nc or ng is True):
                continue
            settings = {k: v for k, v in (('nameguard', ng), ('namechars', nc), ('ignorecase', ic)) if v not in (None, '')}
            refs = {'nameguard': ng, 'namechars': nc, 'ignorecase': ic}
            tag = f'ng{ng}_nc{len(nc)}_ic{int(ic)}'
            for n in (range(2, maxn + 1)):
                if tier == 'quick' and n == 2 and nc:
                    continue
                spec = {'grammar': gn + tag, 'program': gn, 'rules': rules, 'n': n, 'settings': settings, 'ref': refs, 'warm': ['ab', 'abc', 'ab-', 'ab-c', 'AB', 'aB', 'ab ', 'abC', 'ab$', 'abcC', 'a b']}
                obs.append(Ob(name=f'B_{gn}_{tag}_L{n}', factory='vt.pegbody:make_peg', spec=spec, params=[(f'c{i}', 0, UNI) for i in range(n)],
                              budget={2: 90, 3: 400, 4: 1800}[n], group='B'))
    # B2: several configurations in one process (process-wide caches keyed by token text or pattern must not carry a verdict from one configuration into another)
    X_RULES = {'dash_token': [('start', S(T('a-b'), P('(?s).?')))], 'plain_token': [('start', S(T('ab'), OPT(T('-')), P('(?s).?')))]}
    X_SEQS = {
        'namechars_then_default': [({'namechars': '-'}, {'namechars': '-'}), ({}, {}), ({'namechars': '-'}, {'namechars': '-'})],
        'default_then_namechars': [({}, {}), ({'namechars': '-'}, {'namechars': '-'}), ({}, {})],
        'noguard_then_guard': [({'nameguard': False}, {'nameguard': False}), ({'nameguard': True, 'namechars': '-'}, {'nameguard': True, 'namechars': '-'}), ({}, {})],
        'ignorecase_then_default': [({'ignorecase': True}, {'ignorecase': True}), ({}, {}), ({'ignorecase': True, 'namechars': '-'}, {'ignorecase': True, 'namechars': '-'})],
    }
    for gn, rules in X_RULES.items():
        fixed = 'a-b' if gn == 'dash_token' else 'ab'
        for sn, seq in X_SEQS.items():
            for extra in ((1,) if tier == 'quick' else (1, 2)):
                n = len(fixed) + extra
                spec = {'grammar': f'{gn}_{sn}', 'program': 'cross:' + gn, 'rules': rules, 'n': n, 'sequence': seq, 'warm': ['a-bc', 'a-b', 'a-b-', 'abc', 'ab-', 'ab-c', 'A-Bc', 'ABc', 'a-b c']}
                obs.append(Ob(name=f'B2_{gn}_{sn}_L{n}', factory='vt.props.c09:make_crossconfig', spec=spec,
                              params=[(f'c{i}', 0, UNI) for i in range(n)], budget={3: 300, 4: 600, 5: 1800}.get(n, 600), group='B2',
                              extra_pre=' and '.join(f'(c{i} == {ord(ch)} or c{i} == {ord(ch.upper())})' for i, ch in enumerate(fixed))))
    # C
    for setting in LAYER_PROBES:
        obs.append(Ob(name=f'C_layers_{setting}', factory='vt.props.c09:make_layers', spec={'setting': setting, 'program': setting},
                      params=[('compile_', 0, 3), ('directive', 0, 3), ('parse', 0, 3)], budget=300, group='C', require_tags=('layered',)))
    return {
        'obligations': obs,
        'level': 'other',
        'programs': len(TEMPLATES) + len(B_GRAMMARS) + len(LAYER_PROBES) + 3,
        'explanation': 'A: metamorphic layout invariance on the real engine: every whitespace run of a template text (leading and trailing included) is replaced by 0-2 '
                       'symbolic code points constrained to str.isspace() - optionally with a solver-selected comment of either kind inside - and the AST must equal that '
                       'of the single-space layout; twins assert that whitespace is NOT skipped before a pattern or at the entry of an upper-case rule, and is before a '
                       'lower-case rule. B: token followed by symbolic characters under nameguard {None, True, False} x namechars {"", "-$"} x ignorecase: real == '
                       'reference evaluator for every text. B2: the same text parsed under a SEQUENCE of configurations in one process (namechars given / not given, nameguard off / on, '
                       'ignorecase), each parse compared with the reference under its own configuration: a verdict cached from an earlier configuration must not leak. C: each configuration setting given at compile time, as a directive and at parse time (absent / value 1 / '
                       'value 2, solver-chosen selectors): the behaviour observed through probe texts is that of the highest-priority layer present.',
        'functions_encoded': ['tatsu.input.buffer:BufferCursor.next_token/eat_whitespace/eat_comments/eat_eol_comments (layouts through a caller-made Buffer)', 'tatsu.input.textlines:TextLinesCursor.next_token/eat_whitespace/eat_comments/eat_eol_comments/match/is_name_char/is_name', 'tatsu.contexts.core:ParserCore.next_token',
                              'tatsu.contexts.context:ParseContext.token/pattern/constant/eofcheck/void', 'tatsu.contexts.engine:ParserEngine.call/rule_call (whitespace on rule entry)',
                              'tatsu.config:ParserConfig.__post_init__', 'tatsu.util.configs:Config.override/hard_override/merge', 'tatsu.peg.base:Grammar.__init__/new_parse_config', 'tatsu.api.api:compile'],
        'bounds': f'A: {sum(len(v) for v in layouts.values())} layouts of 5 templates with runs of 0-2 symbolic whitespace code points, comment selectors over {len(COMMENT_RUNS)} comment shapes; '
                  f'B: 3 grammars x 12 settings, text length 2..{maxn} over all Unicode; C: 7 settings x 27 layer combinations',
        'outside': 'longer runs; whitespace given as a compiled regex object; comments nested in comments; the legacy Buffer input only for a subset of the part A layouts',
        'assumptions': ['"whitespace" for part A means str.isspace() code points (the default whitespace regex \\\\s+)'],
    }
