"""C19 — the packet queue is lossless and delivers each packet once, in order."""
from __future__ import annotations

import os

from ..harness import _tracing, mktext
from ..known import tolerated
from ..runner import Ob, ROOT

UNI = 0x110000
SPECIAL = ['~', 'a', '1', '\\', 'e', '"', '@', ':', '\x1b', 'f', '{', '[', ' ', 'x', '0', '_']


# ---------------- A: codec kernels, symbolic text ----------------
def make_rle(spec):
    from tatsu.packetz.compact import rle_decode, rle_encode

    def body(args):
        s = mktext(args)
        try:
            e = rle_encode(s)
            d = rle_decode(e)
        except Exception as ex:  # noqa: BLE001
            return False, 'exception', repr(ex)[:80]
        if not (d == s):
            return False, 'roundtrip', None
        return True, ('triv:literal' if e == s.replace('~', '~~') else 'compressed'), None

    n = spec['n']
    body.explain = lambda args: (lambda s: f'text={s!r} encoded={rle_encode(s)!r} decoded={rle_decode(rle_encode(s))!r}')(mktext(args))
    body.warm = [tuple(map(ord, w)) for w in ['', 'a', '~', '~~', 'aaaa', '~a1~', '~a1', 'aaaaa', '1111', '~00~', '~aaaa', 'aaaa~', 'abcd', 'a~~b', '~1~', '11111', '~0000', 'aaaa1'] if len(w) == n]
    return body


def make_textcodec(spec):
    """class_escape/class_unescape and tty_escape/tty_unescape as used on JSON text (assume: what json.dumps can produce)"""
    from tatsu.packetz.packet import class_escape, class_unescape
    from tatsu.util.tty import tty_escape, tty_unescape
    which = spec['codec']
    known = tolerated('C19')

    def body(args):
        s = mktext(args)
        try:
            if which == 'class':
                out = class_unescape(class_escape(s))
                # JSON text contains '"@":' only when some dict key is "@" (class-marker key: known finding F18)
                if '"@":' in s:
                    if out == s:
                        return True, 'marker-survives', None
                    return ('F18' in known), ('known:F18' if 'F18' in known else 'class-marker-key'), None
            else:
                # JSON text never contains a raw ESC (json.dumps writes \\u001b)
                if '\x1b' in s:
                    return True, 'triv:not-json-text', None
                out = tty_unescape(tty_escape(s))
                if '\\e' in s or '\\x1b' in s:
                    if out == s:
                        return True, 'backslash-e-survives', None
                    return ('F19' in known), ('known:F19' if 'F19' in known else 'backslash-e'), None
        except Exception as ex:  # noqa: BLE001
            return False, 'exception', repr(ex)[:80]
        if not (out == s):
            return False, 'roundtrip', None
        return True, 'ok', None

    n = spec['n']
    body.explain = lambda args: f'text={mktext(args)!r} codec={which}'
    body.warm = [tuple(map(ord, w)) for w in ['', 'a', '"@":', '\\e', '\\x1b', 'abcd', '"@"', 'a\\eb', '@":a', '__', '"__c', 'x\\e'] if len(w) == n]
    return body


# ---------------- B: pack/unpack on payload templates over an alphabet of the characters the encoding uses ----------------
def make_pack(spec):
    import io
    import contextlib
    from tatsu.packetz.packet import Packet, PacketError, pack, unpack
    template = spec['template']
    known = tolerated('C19')
    nsel = spec['n']

    def classify(strings, keys):
        """which known finding (if any) the payload falls under"""
        for s in strings + keys:
            if '\\e' in s or '\\x1b' in s:
                return 'F19'
        for s in strings:
            if s.startswith(('\\e[', 'f{')):
                return 'F6'
        for k in keys:
            # the JSON text of the key ends in "@": or is "__class__":
            if k in ('@', '__class__') or k.endswith('"@'):
                return 'F18'
        return None

    def native(sel):
        s = ''.join(SPECIAL[i] for i in sel)
        half = len(s) // 2
        keys = []
        if template == 'str':
            data = s
            strings = [s]
        elif template == 'list':
            data = [s[:half], [s[half:]], 'aaaa' + s]
            strings = [s[:half], s[half:], 'aaaa' + s]
        elif template == 'dictval':
            data = {'k': s, 'n': {'m': [s[:half]]}}
            strings = [s, s[:half]]
        elif template == 'dictkey':
            data = {s: 1, 'z': s[half:]}
            strings = [s[half:]]
            keys = [s]
        else:
            data = s
            strings = [s]
        to = s[:half] if template == 'str' else 'me'
        if template == 'str':
            strings.append(to)
        p = Packet(to=to, data=data)
        sink = io.StringIO()
        try:
            with contextlib.redirect_stderr(sink), contextlib.redirect_stdout(sink):
                line = pack(p)
                q = unpack(line + '\n')
            same = (q.to == p.to and q.data == p.data and type(q.data) is type(p.data) and q.id == p.id and '\n' not in line)
            outcome = 'ok' if same else 'mismatch'
            detail = None if same else [repr(p.data)[:60], repr(getattr(q, 'data', None))[:60]]
        except Exception as ex:  # noqa: BLE001
            outcome, detail = 'exception', type(ex).__name__ + ': ' + str(ex)[:60]
        if outcome == 'ok':
            return True, ('ok' if s else 'triv:empty'), None
        kf = classify(strings, keys)
        if kf is not None and kf in known:
            return True, 'known:' + kf, [repr(data)[:60], outcome]
        return False, outcome, detail

    cache = {}

    def body(args):
        sel = []
        for a in args:
            v = 0
            for i in range(len(SPECIAL)):
                if a == i:
                    v = i
            sel.append(v)
        if _tracing():
            from crosshair.tracers import NoTracing
            with NoTracing():
                cache.clear()
                cache[tuple(sel)] = r = native(sel)
                return r
        return cache.get(tuple(sel)) or native(sel)

    body.explain = lambda args: f'template={template} string={"".join(SPECIAL[i] for i in args)!r} -> {native(list(args))!r}'
    body.warm = [tuple([1] * nsel), tuple([0, 1, 2, 0][:nsel])]
    return body


# ---------------- C: the queue: sends, receives, a partial last record, clock ----------------
def make_queue(spec):
    import contextlib
    import io
    import shutil
    import tempfile
    import time as _time
    from tatsu.packetz.queue import PacketzQueue
    known = tolerated('C19')
    # payload set 1: records that END in multi-byte text (2- and 3-byte UTF-8), read by an incremental reader (seed C19-6: an offset kept in characters)
    payloads = [['p0', {'k': ['aaaa~~', 1]}, 'x' * 7], ['\u00e1\u00e9\u00ed\u00f3\u00fa', {'name': '\u65e5\u672c\u8a9e'}, 'x\u00e9' * 3]][spec.get('pset', 0)]
    DELTAS = [1, 2, 99_999_999, 100_000_000, 100_000_001, 200_000_000, 3]

    def native(order, cut, dsel):
        """order: bit i = reader drains after send i ; cut: the last record is first written only up to `cut` characters ;
        dsel: selects the clock distance between consecutive sends"""
        base = os.path.join(ROOT, '.work')
        os.makedirs(base, exist_ok=True)
        d = tempfile.mkdtemp(prefix='q', dir=base)
        real_ns = _time.monotonic_ns
        clock = [123_456_789_012]

        def fake_ns():
            clock[0] += DELTAS[dsel]
            return clock[0]
        cwd = os.getcwd()
        sink = io.StringIO()
        try:
            os.chdir(d)
            _time.monotonic_ns = fake_ns
            with contextlib.redirect_stderr(sink), contextlib.redirect_stdout(sink):
                path = os.path.join(d, 'q.jsonl')
                w = PacketzQueue(path=path)
                r1 = PacketzQueue(path=path)
                r2 = PacketzQueue(path=path)
                got1, got2, sent = [], [], []
                for i, pl in enumerate(payloads):
                    last = i == len(payloads) - 1
                    if not last:
                        pk = w.send(to='r', data=pl)
                        sent.append(pk.id)
                    else:
                        # the last send is observed half-way: write a prefix, let readers run, then complete it
                        probe = PacketzQueue(path=os.path.join(d, 'probe.jsonl'))
                        pk = probe.send(to='r', data=pl)
                        line = open(probe.path).read()
                        c = min(cut, len(line))
                        with open(path, 'a', encoding='utf-8') as f:
                            f.write(line[:c])
                        got1 += [p.id for p in r1.receive()]
                        got2 += [p.id for p in r2.receive()] if order & 4 else []
                        with open(path, 'a', encoding='utf-8') as f:
                            f.write(line[c:])
                        sent.append(pk.id)
                    if (order >> i) & 1:
                        got1 += [p.id for p in r1.receive()]
                got1 += [p.id for p in r1.receive()]
                got1 += [p.id for p in r1.receive()]
                got2 += [p.id for p in r2.receive()]
        except Exception as ex:  # noqa: BLE001
            return False, 'exception', type(ex).__name__ + ': ' + str(ex)[:80]
        finally:
            _time.monotonic_ns = real_ns
            os.chdir(cwd)
            shutil.rmtree(d, ignore_errors=True)
        if got1 == sent and got2 == sent:
            return True, ('partial-write' if 0 < cut else 'triv:whole'), None
        if len(set(sent)) < len(sent) and 'F17' in known:
            return True, 'known:F17', [sent, got1]
        return False, 'delivery', [sent, got1, got2]

    cache = {}

    def body(args):
        order, cut, dsel = args
        if _tracing():
            o = c = ds = 0
            for i in range(8):
                if order == i:
                    o = i
            for i in range(spec['maxcut'] + 1):
                if cut == i:
                    c = i
            for i in range(len(DELTAS)):
                if dsel == i:
                    ds = i
            from crosshair.tracers import NoTracing
            with NoTracing():
                cache.clear()
                cache[(o, c, ds)] = r = native(o, c, ds)
                return r
        return cache.get((order, cut, dsel)) or native(order, cut, dsel)

    body.explain = lambda args: repr(native(*args))
    body.warm = [(0, 0, 0), (7, 5, 1)]
    return body


def plan(tier, seed):
    obs = []
    rl = (0, 1, 2, 3, 4, 5) if tier == 'quick' else (0, 1, 2, 3, 4, 5, 6, 7)
    for n in rl:
        obs.append(Ob(name=f'A_rle_len{n}', factory='vt.props.c19:make_rle', spec={'n': n}, params=[(f'c{i}', 0, UNI) for i in range(n)],
                      budget={0: 30, 1: 30, 2: 40, 3: 60, 4: 150, 5: 600, 6: 2400, 7: 3600}[n], group='A', require_tags=('compressed',) if n in (4, 5) else ()))
    for codec in ('class', 'tty'):
        for n in ((2, 4, 5) if tier == 'quick' else (2, 4, 5, 6)):
            obs.append(Ob(name=f'A_{codec}_len{n}', factory='vt.props.c19:make_textcodec', spec={'codec': codec, 'n': n},
                          params=[(f'c{i}', 0, UNI) for i in range(n)], budget={2: 40, 4: 200, 5: 600, 6: 2400}[n], group='A'))
    for tpl in ('str', 'list', 'dictval', 'dictkey'):
        n = 3 if tier == 'quick' else 4
        for first in range(len(SPECIAL)) if tier != 'quick' else [None]:
            pass
        obs.append(Ob(name=f'B_pack_{tpl}_sel{n}', factory='vt.props.c19:make_pack', spec={'template': tpl, 'n': n},
                      params=[(f's{i}', 0, len(SPECIAL)) for i in range(n)], budget=900 if n == 3 else 3600, group='B', require_tags=('ok',)))
    maxcut = 40 if tier == 'quick' else 90
    obs.append(Ob(name='C_queue', factory='vt.props.c19:make_queue', spec={'maxcut': maxcut},
                  params=[('order', 0, 8), ('cut', 0, maxcut + 1), ('dsel', 0, 7)], budget=1200, group='C', require_tags=('partial-write',)))
    obs.append(Ob(name='C_queue_multibyte', factory='vt.props.c19:make_queue', spec={'maxcut': maxcut, 'pset': 1},
                  params=[('order', 0, 8), ('cut', 0, maxcut + 1), ('dsel', 0, 2)], budget=1200, group='C', require_tags=('partial-write',)))
    return {
        'obligations': obs,
        'level': 'other',
        'explanation': 'A: the run-length layer (real regexes, incl. the back-reference, executed by the plugin\'s symbolic matcher) and the class/tty text '
                       'codecs round-trip every text of n symbolic code points (all Unicode). B: pack/unpack of four payload templates whose strings are '
                       'built from solver-chosen selectors into the 16 characters the encoding itself uses (~ digits \\\\ e " @ : ESC f { [ ...): hashing, '
                       'json and the class registry are C-level/`match` code, so each selector path runs natively. C: three sends through real files with a '
                       'solver-chosen drain schedule, the last record first written up to a solver-chosen character offset, and the clock '
                       '(time.monotonic_ns) replaced by a stub whose step is solver-chosen: every completed send is delivered exactly once, in order, to '
                       'both readers.',
        'functions_encoded': ['tatsu.packetz.compact:rle_encode/rle_decode/compact_value/decompact_value', 'tatsu.packetz.packet:pack/unpack/hashed/unhashed/class_escape/class_unescape/Packet',
                              'tatsu.util.tty:tty_escape/tty_unescape', 'tatsu.packetz.queue:PacketzQueue.send/receive', 'tatsu.util.misc:new_id/hash2str', 'tatsu.util.fromjson:fromjson', 'tatsu.util.asjson:asjson'],
        'bounds': f'A: texts of 0..{rl[-1]} code points (rle), 2..{5 if tier == "quick" else 6} (text codecs); B: 4 templates x all strings of {3 if tier == "quick" else 4} characters over a 16-character alphabet; '
                  f'C: 3 sends, 8 drain schedules, cut offsets 0..{maxcut}, 7 clock steps',
        'outside': 'longer strings; other payload shapes; concurrent writers; real clock; corruption other than truncation of the last record',
        'assumptions': ['stub: time.monotonic_ns returns a strictly increasing sequence with a solver-chosen step', 'json.dumps/loads and hashlib are trusted (C level)',
                        'JSON text contains no raw ESC and contains \'"@":\' only for a dict key "@"'],
    }
