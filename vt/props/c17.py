"""C17 — constant expressions in grammars are evaluated in a sandbox."""
from __future__ import annotations

import ast

from ..harness import mktext
from ..runner import Ob

UNI = 0x110000

# Independent classification of the interpreter's builtins: what a "pure builtin function" is (no I/O, no code execution,
# no attribute reach, no process control, no introspection of frames/namespaces).  Types are listed too.
PURE = {
    'abs', 'all', 'any', 'ascii', 'bin', 'bool', 'bytes', 'callable', 'chr', 'complex', 'divmod', 'enumerate', 'filter', 'float', 'format',
    'frozenset', 'hash', 'hex', 'int', 'iter', 'len', 'list', 'map', 'max', 'min', 'next', 'oct', 'ord', 'pow', 'range', 'repr', 'reversed',
    'round', 'set', 'slice', 'sorted', 'str', 'sum', 'tuple', 'zip', 'isinstance', 'issubclass', 'dict', 'bytearray',
    'True', 'False', 'None', 'Ellipsis', 'NotImplemented',
}
TEMPLATES = ['call_name', 'method_call', 'attr_chain', 'nested_call', 'comprehension', 'lambda_body', 'fstring', 'subscript', 'keyword_value',
             'call_of_call', 'attr_of_call', 'ifexp', 'starred']


def build_tree(kind, ident):
    """expression trees as ast.parse would build them, with `ident` at the interesting place; other names are context names"""
    L = ast.Load()
    x = ast.Name(id='x', ctx=L)
    name = ast.Name(id=ident, ctx=L)
    if kind == 'call_name':
        body = ast.Call(func=name, args=[], keywords=[])
    elif kind == 'method_call':
        body = ast.Call(func=ast.Attribute(value=x, attr=ident, ctx=L), args=[], keywords=[])
    elif kind == 'attr_chain':
        body = ast.Attribute(value=ast.Attribute(value=x, attr='real', ctx=L), attr=ident, ctx=L)
    elif kind == 'nested_call':
        body = ast.Call(func=ast.Name(id='len', ctx=L), args=[ast.Call(func=name, args=[x], keywords=[])], keywords=[])
    elif kind == 'comprehension':
        body = ast.ListComp(elt=ast.Call(func=name, args=[x], keywords=[]),
                            generators=[ast.comprehension(target=ast.Name(id='y', ctx=ast.Store()), iter=x, ifs=[], is_async=0)])
    elif kind == 'lambda_body':
        body = ast.Lambda(args=ast.arguments(posonlyargs=[], args=[], kwonlyargs=[], kw_defaults=[], defaults=[]), body=ast.Call(func=name, args=[], keywords=[]))
    elif kind == 'fstring':
        body = ast.JoinedStr(values=[ast.Constant(value='a'), ast.FormattedValue(value=ast.Call(func=name, args=[], keywords=[]), conversion=-1)])
    elif kind == 'subscript':
        body = ast.Subscript(value=name, slice=ast.Constant(value=0), ctx=L)
    elif kind == 'keyword_value':
        body = ast.Call(func=ast.Name(id='max', ctx=L), args=[x], keywords=[ast.keyword(arg='key', value=name)])
    elif kind == 'call_of_call':
        body = ast.Call(func=ast.Call(func=name, args=[], keywords=[]), args=[], keywords=[])
    elif kind == 'attr_of_call':
        body = ast.Attribute(value=ast.Call(func=ast.Name(id='repr', ctx=L), args=[x], keywords=[]), attr=ident, ctx=L)
    elif kind == 'ifexp':
        body = ast.IfExp(test=x, body=name, orelse=ast.Constant(value=1))
    elif kind == 'starred':
        body = ast.Call(func=ast.Name(id='max', ctx=L), args=[ast.Starred(value=name, ctx=L)], keywords=[])
    else:
        raise ValueError(kind)
    return ast.Expression(body=body)


ATTR_KINDS = {'method_call', 'attr_chain', 'attr_of_call'}
SOURCE = {   # the source text that parses to the template (so that a check looking at the text instead of the tree sees a consistent text)
    'call_name': '{}()', 'method_call': 'x.{}()', 'attr_chain': 'x.real.{}', 'nested_call': 'len({}(x))', 'comprehension': '[{}(x) for y in x]',
    'lambda_body': 'lambda: {}()', 'fstring': "f'a{{{}()}}'", 'subscript': '{}[0]', 'keyword_value': 'max(x, key={})', 'call_of_call': '{}()()',
    'attr_of_call': 'repr(x).{}', 'ifexp': '{} if x else 1', 'starred': 'max(*{})',
}


def make_gate(spec):
    """B: the AST gate (_check_safe_eval_cached) on expression trees whose identifier / attribute text is symbolic."""
    from tatsu.util import safeeval
    from tatsu.util.safeeval import SecurityError, safe_builtins
    kind = spec['template']
    ctx = dict(safe_builtins())
    ctx['x'] = 1          # a name bound in the current AST
    keys = sorted(ctx)
    items = safeeval.make_hashable(ctx)
    check = getattr(safeeval._check_safe_eval_cached, '__wrapped__', safeeval._check_safe_eval_cached)

    def body(args):
        ident = mktext(args)
        tree = build_tree(kind, ident)
        orig = safeeval.parse_expression
        safeeval.parse_expression = lambda e: tree      # stub: ast.parse is a C boundary
        try:
            try:
                pre, post = SOURCE[kind].split('{}')
                check(pre + ident + post, items)
                accepted = True
            except SecurityError:
                accepted = False
            except Exception as e:  # noqa: BLE001
                return False, 'exception', type(e).__name__ + ': ' + str(e)[:80]
        finally:
            safeeval.parse_expression = orig
        if not accepted:
            return True, 'rejected', None
        if kind in ATTR_KINDS:
            if ident.startswith('__'):
                return False, 'dunder-accepted', None
            return True, 'accepted', None
        inside = False
        for k in keys:
            if ident == k:
                inside = True
        if not inside:
            return False, 'unknown-name-accepted', None
        if kind == 'call_of_call':
            return False, 'call-of-call-accepted', None
        return True, 'accepted', None

    body.explain = lambda args: f'template={kind} identifier={mktext(args)!r} tree={ast.dump(build_tree(kind, mktext(args)))}'
    n = spec['n']
    body.warm = [tuple(map(ord, w)) for w in ['len', 'abs', 'x', 'eval', 'open', '__a', '_a', 'ab', 'exit', '__', 'a__b', 'real'] if len(w) == n]
    return body


def native_checks():
    """A (allow-list) and C (end to end through the parser, under an audit hook) — finite, decided by evaluating the real code in a
    child interpreter (stdin closed)."""
    import json
    import os
    import subprocess
    from ..runner import PY, env_for_children
    env = env_for_children()
    env['PYTHONBREAKPOINT'] = '0'
    p = subprocess.run([PY, '-m', 'vt.props.c17'], env=env, stdin=subprocess.DEVNULL, stdout=subprocess.PIPE, stderr=subprocess.PIPE, text=True, timeout=600)
    out = []
    for line in p.stdout.splitlines():
        if line.startswith('NATIVE '):
            out.append(json.loads(line[7:]))
    if p.returncode != 0 or not out:
        out.append({'name': 'c17-native-run', 'ok': False, 'detail': f'rc={p.returncode} stderr={p.stderr[-800:]}'})
    return out


def plan(tier, seed):
    maxn = 4 if tier == 'quick' else 6
    obs = []
    for t in TEMPLATES:
        for n in range(1, maxn + 1):
            if tier == 'quick' and n == 4 and t not in ('call_name', 'method_call', 'attr_chain', 'comprehension', 'fstring'):
                continue
            obs.append(Ob(name=f'B_{t}_len{n}', factory='vt.props.c17:make_gate', spec={'template': t, 'n': n},
                          params=[(f'a{i}', 0, UNI) for i in range(n)], budget={1: 60, 2: 120, 3: 300, 4: 600, 5: 1500, 6: 3000}[n], group='B',
                          require_tags=('rejected', 'accepted') if n == 3 and t in ('call_name', 'method_call') else (('rejected',) if n >= 2 or t not in ATTR_KINDS else ())))
    return {
        'obligations': obs,
        'native': native_checks,
        'level': 'other',
        'explanation': 'B: the real AST gate runs symbolically on expression trees (13 syntactic templates: call, method call, attribute chain, nested '
                       'call, comprehension, lambda, f-string, subscript, keyword value, call of call, attribute of call, conditional, starred) whose '
                       'identifier/attribute text is n symbolic code points: whenever the gate accepts, the loaded name is a context name, the attribute '
                       'does not start with "__", and the call target is a name or method. A/C (finite, evaluated natively in a child interpreter under '
                       'sys.addaudithook): safe_builtins() contains nothing outside an independent list of pure builtins; every name of the builtins '
                       'module written as a grammar constant or alert either stays text / fails semantically or is pure; known escape expressions '
                       'raise no open/import/exec/input/os events.',
        'functions_encoded': ['tatsu.util.safeeval:_check_safe_eval_cached/check_eval_context/scan_for_exceptions/safe_builtins/make_hashable/safe_eval/is_eval_safe',
                              'tatsu.contexts.engine:ParserEngine.constant (native, C)', 'tatsu.contexts.context:ParseContext.alert (native, C)'],
        'bounds': f'identifier/attribute text 1..{maxn} code points over all Unicode in 13 templates; all names of the running interpreter\'s builtins module; 25 escape expressions',
        'outside': 'expression strings whose AST shape is not one of the templates; identifiers longer than the bound; NFKC normalisation is done by ast.parse '
                   '(stubbed here: identifiers are taken as already normalised, which is what ast.parse returns)',
        'assumptions': ['stub: safeeval.parse_expression returns the template tree', 'PURE list in vt/props/c17.py classifies builtins'],
    }


# ---------------------------------------------------------------------------------------------------------------------------------
def _native_main():
    import builtins
    import json
    import sys
    import warnings
    warnings.simplefilter('ignore')
    events = []
    WATCH = ('open', 'import', 'os.', 'subprocess.', 'builtins.input', 'builtins.breakpoint', 'socket.', 'shutil.', 'ctypes.', 'sys._getframe', 'code.__new__')

    def hook(ev, args):
        if ev.startswith(WATCH):
            events.append((ev, repr(args)[:80]))
    import tatsu
    from tatsu.exceptions import FailedSemantics, ParseException
    from tatsu.util.safeeval import safe_builtins
    # warm every import the parser needs before watching
    tatsu.compile('start: `1` ;').parse('')
    sys.addaudithook(hook)
    res = []

    import os
    sink = os.fdopen(os.dup(1), "w")     # evaluated expressions may close the standard streams (exit() does)

    def emit(name, ok, detail=None):
        sink.write("NATIVE " + json.dumps({'name': name, 'ok': bool(ok), 'detail': detail}, default=repr) + '\n')
        sink.flush()

    # A: allow-list
    sb = safe_builtins()
    extra = sorted(k for k in sb if k not in PURE)
    emit('A_allowlist_subset_of_pure_builtins', not extra, {'not_pure': extra, 'allowed': sorted(sb)})
    # C1: every builtin name, as constant and as alert
    def evaluate(expr, alert=False, text=''):
        g = f"start: {'^' if alert else ''}`{expr}` ;" if not alert else f"start: 'a'? ^`{expr}` ;"
        del events[:]
        try:
            model = tatsu.compile(g)
            v = model.parse(text)
            return ('value', v, list(events))
        except FailedSemantics as e:
            return ('failed-semantics', str(e)[:80], list(events))
        except ParseException as e:
            return ('parse-exception', type(e).__name__, list(events))
        except BaseException as e:  # noqa: BLE001
            return ('ESCAPED', type(e).__name__ + ': ' + str(e)[:80], list(events))
    bad = []
    n = 0
    for name in sorted(vars(builtins)):
        if not name.isidentifier():
            continue
        n += 1
        kind, v, evs = evaluate(name)
        resolved = kind == 'value' and not isinstance(v, str)
        if kind == 'ESCAPED' or evs or (resolved and name not in PURE):
            bad.append([name, kind, repr(v)[:60], evs[:2]])
    emit(f'C_every_builtin_name_as_constant[{n}]', not bad, bad[:10])
    # C2: escape expressions: none may produce a watched event or escape as a non-TatSu exception; results must be text
    ESC = [
        "open('/nonexistent/vt')", "__import__('os')", "eval('1')", "exec('x=1')", "compile('1','f','eval')", "input()", "exit()", "quit()",
        "breakpoint()", "getattr(x, 'real')", "().__class__", "().__class__.__bases__[0].__subclasses__()", "x.__class__", "(lambda: open('/nonexistent/vt'))()",
        "[open('/nonexistent/vt') for y in [1]]", "{open('/nonexistent/vt')}", "type(1)", "vars()", "globals()", "locals()", "dir()", "help()",
        "print('vt')", "delattr(x, 'y')", "setattr(x, 'y', 1)", "memoryview(b'a')", "super()", "object()", "len.__self__", "abs.__call__(1)",
        "(1).__class__", "''.join.__globals__",
        # identifiers are NFKC-normalised by the parser: spellings of dunders without two adjacent ASCII underscores
        "x._\uff3fclass_\uff3f", "abs._\uff3fself_\uff3f", "abs._\uff3fself_\uff3f.open('/nonexistent/vt')", "abs._\uff3fself_\uff3f.eval('1+1')", "{x._\uff3fclass_\uff3f}", "next(iter([open]))", "max([open], key=len)", "sorted([1], key=open)",
    ]
    bad = []
    for e in ESC:
        for alert in (False, True):
            kind, v, evs = evaluate(e, alert=alert)
            leaked = kind == 'ESCAPED' or bool(evs)
            evaluated = kind == 'value' and not alert and not (isinstance(v, str) and v.strip() == e)
            if leaked or evaluated:
                bad.append([e, alert, kind, repr(v)[:60], evs[:2]])
    emit(f'C_escape_expressions[{len(ESC)}x2]', not bad, bad[:10])
    # C3: f-string nesting and names shadowed by AST keys (the context is the AST): still no watched event
    bad = []
    for g, t in [("start: open='a' r=`{open}` ;", 'a'), ("start: x='a' `f'{x.__class__}'` ;", 'a'), ("start: x='a' `{x.__class__}` ;", 'a'),
                 ("start: eval='a' `eval('1')` ;", 'a'), ("start: x='a' `{open('/nonexistent/vt')}` ;", 'a')]:
        del events[:]
        try:
            v = tatsu.compile(g).parse(t)
            out = ('value', v)
        except ParseException as e:
            out = ('tatsu-exception', type(e).__name__)
        except BaseException as e:  # noqa: BLE001
            out = ('ESCAPED', repr(e)[:80])
        if out[0] == 'ESCAPED' or events or (out[0] == 'value' and 'class' in repr(out[1]) and '__class__' not in repr(out[1])):
            bad.append([g, out, list(events)[:2]])
    emit('C_shadowing_and_fstrings[5]', not bad, bad)
    # C3b: an AST key that shadows a dangerous builtin, used inside a NESTED scope (lambda, generator expression) run by an allowed builtin: names in
    # nested scopes are global loads, which bypass the context mapping; the evaluation globals must not fall back to the real builtins
    bad = []
    CALLS = {'open': "open('/nonexistent/vt')", 'eval': "eval('open(chr(47))')", 'exec': "exec('import os')", 'compile': "compile('1', 'f', 'eval')", 'input': 'input()',
             'exit': 'exit()', 'breakpoint': 'breakpoint()', 'getattr': "getattr(0, 'real')", 'globals': 'globals()', 'vars': 'vars()'}
    NESTED = ["max([0], key=lambda _: {c})", "any({c} for _ in [0])", "sorted([0], key=lambda _: {c})", "list(map(lambda _: {c}, [0]))", "sum(1 for _ in [0] if {c})", "(lambda: {c})()"]
    count = 0
    for name, call in CALLS.items():
        for tpl in NESTED:
            count += 1
            g = f"start: {name}=/\\w+/ r=`{tpl.format(c=call)}` $ ;"
            del events[:]
            try:
                v = tatsu.compile(g).parse('abc')
                out = ('value', v)
            except ParseException as e:
                out = ('tatsu-exception', type(e).__name__)
            except BaseException as e:  # noqa: BLE001
                out = ('ESCAPED', repr(e)[:80])
            evaluated = out[0] == 'value' and not isinstance(out[1].get('r') if hasattr(out[1], 'get') else None, str)
            if out[0] == 'ESCAPED' or events or evaluated:
                bad.append([g, repr(out)[:80], list(events)[:2]])
    emit(f'C_shadowed_builtin_in_nested_scope[{count}]', not bad, bad[:8])
    # C5: names bound in one rule / parse / grammar are not visible to constants elsewhere, and builtins are not replaced by AST keys
    bad = []
    before = sorted(safe_builtins())
    try:
        tatsu.compile("start: user='alice' len='x' `{user}` ;\n", name='L1').parse('alice x')
        v = tatsu.compile("start: 'q' `user` ;\n", name='L2').parse('q')
        if v != ['q', 'user']:
            bad.append(['constant `user` in a rule that does not bind it', repr(v)])
        v = tatsu.compile("start: w='abc' n=`len(w)` ;\n", name='L3').parse('abc')
        if v.get('n') != 3:
            bad.append(['len(w) after a rule bound the name len', repr(v)])
    except Exception as e:  # noqa: BLE001
        bad.append(['exception', type(e).__name__ + ': ' + str(e)[:100]])
    after = sorted(safe_builtins())
    if after != before:
        bad.append(['safe_builtins() changed by parsing', [x for x in after if x not in before]])
    emit('C_context_does_not_leak_between_parses', not bad, bad)
    # C4: safe expressions still evaluate
    bad = []
    for e, want in [('1 + 2', 3), ("len('abc')", 3), ("max(1, 2)", 2), ("'a' + 'b'", 'ab'), ("abs(-3)", 3), ('7', 7)]:
        kind, v, evs = evaluate(e)
        if kind != 'value' or v != want:
            bad.append([e, kind, repr(v)])
    emit('C_safe_expressions_unaffected[6]', not bad, bad)
    return 0


if __name__ == '__main__':
    import sys
    sys.exit(_native_main())
