META = {
    'level': 'translation_validation',
    'text': 'Bounded symbolic translation validation of serialization: the model reloaded from JSON, from pickle and from generated model source is executed side by side '
            'with the original on every text up to the bound, after a concrete structural comparison; string sniffing decided per solver-chosen leading characters. '
            'Reloading is generic (class registry by name, dataclass fields, string sniffing), so a colliding token text or a non-init-able field breaks only grammars that '
            'contain it.',
    'note': 'json/pickle are C-level and run on concrete models; the symbolic dimension is the input text. Known finding F6 (strings that look like styles) identified by the '
            'leading characters of the string. Variants per model: JSON, pickle of a fresh model, pickle of a model that has parsed, Python model source; each must also print as the original.',
}
