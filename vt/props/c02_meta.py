META = {
    'level': 'translation_validation',
    'text': 'Bounded symbolic translation validation: the generated Python parser and the grammar model it was generated from are executed symbolically on the same '
            'text of symbolic code points under the same settings and must agree (outcome, parse-error failure, AST), for every text up to the bound and every grammar '
            'of the family; generated sources must compile. The back-ends implement naming, optionals, groups and skip-to through different runtime paths, so '
            'divergence hides in grammar shapes x inputs that the solver enumerates as input classes.',
    'note': 'The model is the reference side (C01 ties it to the documented semantics). Trusted: CrossHair/z3 models validated per path natively. Known findings '
            'F20 (names bound to value-less expressions) and F21 (rule names if/if_ collide) identified by signature. The regex-literal and reused-parser-object obligations range over '
            'solver-chosen selectors (code point, text) with the generator and the generated module run natively per value.',
}
