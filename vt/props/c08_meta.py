META = {
    'level': 'other',
    'text': 'Bounded symbolic verification that only TatSu exception types escape and that reported positions are valid: character matchers on all texts '
            'up to the bound at every offset; whole parses (core + meta expressions, both input classes, parseinfo on/off) on all texts up to the bound; '
            'grammar compilation on seed grammars with a symbolic hole. Stray ValueError/IndexError escapes arise on particular code points (a sign where '
            'digits are expected, superscript digits, empty text) that only a solver picks from 1.1M code points.',
    'note': 'Trusted: CrossHair/z3 models (validated per path natively); int()/float() as the value oracle; the C12 line reference for positions.',
}
