"""C08-B — parsing any text returns a result or raises a parse failure at a valid position whose line/column agree with it and whose
message renders; both input classes, parseinfo on/off."""
from __future__ import annotations

from .. import grammars
from ..harness import _tracing, mktext
from ..runner import Ob

UNI = 0x110000
FUNCS = ['tatsu.exceptions:FailedParse.__init__/pos/render', 'tatsu.contexts.memento:memento (native on witnesses)', 'tatsu.contexts.core:ParserCore.newexcept/set_furthest_exception',
         'tatsu.contexts.engine:ParserEngine.bound (error selection)', 'tatsu.input.buffer:Buffer/BufferCursor (legacy input through the engine)', 'tatsu.peg.meta:*._parse']
EXPLANATION = ('B: whole parses of core-language and meta-expression grammars on texts of n symbolic code points through both input classes with parseinfo on and off: only a '
               'parse failure may escape; its position lies in 0..len, its line info (line, col, start, end, text) agrees with the independent line reference of C12 at the '
               'clamped position, and str(e) renders (natively on each witness). ')
OUTSIDE = 'longer texts; custom Text implementations; trace output'

TEXT_GRAMMARS = {
    'meta_all': "start: @int | @uint | @float | @bool | @name ;\n",
    'meta_seq': "start: 'a' @uint ['.' @int] $ ;\n",
    'eol': "start: 'a' $-> 'b' | 'a' ;\n",
    'multi_line': "start: {line}+ $ ;\nline: /[ab]+/ ;\n",
    'named_closure': "start: xs+={ 'a' | 'b' } y=[/c/] $ ;\n",
    # joins/gathers in which BOTH the separator and the element can match empty: an iteration that consumes nothing must end the repetition (or fail), never loop
    'nullable_sep_join': "start: /,?/%{ /a?/ } $ ;\n",
    'nullable_sep_gather_plus': "start: ([',']).{ ['a'] }+ 'b' ;\n",
    # a rule name that is defined nowhere, used only as a separator (the compile-time reference check does not look at separators): still a TatSu failure at parse time
    'undefined_separator': "start: comma%{'a'}+ ['b'] $ | nosuch.{'b'} $ ;\n",
    'nullable_sep_rule': "start: sep%{ item }+ $ ;\nsep: [','] ;\nitem: {'a'} ;\n",
}
CORE_QUICK = ['seq_eof', 'choice_order', 'join_plus', 'lookaheads', 'named_defaults', 'rule_list_nested', 'skipto', 'leftrec_basic', 'pattern_no_ws', 'constant']


def make_errors(spec):
    import tatsu
    from tatsu.exceptions import FailedParse
    from tatsu.input.buffer import Buffer
    from ..refpeg import render_grammar
    from ..pegbody import rules_of
    from .c12 import is_break_py, ref_lines
    gtext = spec['gtext'] if 'gtext' in spec else render_grammar(rules_of(spec))
    model = tatsu.compile(gtext, name='E')
    legacy = spec['input'] == 'Buffer'
    pinfo = spec['parseinfo']
    n = spec['n']

    def body(args):
        t = mktext(args)
        try:
            src = Buffer(t) if legacy else t
            model.parse(src, parseinfo=pinfo)
            return True, 'ok', None
        except FailedParse as e:
            err = e
        except RecursionError:
            return False, 'recursion', None
        except Exception as ex:  # noqa: BLE001
            return False, 'non-tatsu-exception', type(ex).__name__ + ': ' + str(ex)[:80]
        pos = err.pos
        if not (0 <= pos <= n):
            return False, 'position-out-of-text', [pos]
        info = err.info
        if n > 0:
            p = pos if pos < n else n - 1
            sp = ref_lines(t, is_break_py)
            k = 0
            while not (sp[k][0] <= p < sp[k][1]):
                k += 1
            s, e2 = sp[k]
            if not (info.line == k and info.col == p - s and info.start == s and info.end == e2 and info.text == t[s:e2]):
                return False, 'lineinfo-disagrees-with-position', [pos, info.line, info.col, k, p - s]
        else:
            if not (info.line == 0 and info.col == 0 and info.text == ''):
                return False, 'lineinfo-of-empty-text', None
        if not _tracing():
            try:
                msg = str(err)
                if not isinstance(msg, str) or not msg:
                    return False, 'message-empty', None
            except Exception as ex:  # noqa: BLE001
                return False, 'message-does-not-render', type(ex).__name__ + ': ' + str(ex)[:80]
        return True, ('fail' if pos > 0 else 'triv:fail0'), [pos]

    body.native_deadline = 20.0          # one parse of a text of at most 4 code points
    body.explain = lambda args: f'grammar:\n{gtext}input={spec["input"]} parseinfo={pinfo} text={mktext(args)!r}'
    body.warm = [tuple(map(ord, w)) for w in ['', 'a', 'ab', 'a b', '1', 'a1', 'a\n', 'a\nb', '\r\n', 'a 1', 'a.', '1.5', 'tru', 'true', '-', 'a\rb', '\na', 'a,a', 'a+a', 'ab\n', ' \n '] if len(w) == n]
    return body


def obligations(tier, seed):
    obs = []
    maxn = 3 if tier == 'quick' else 4
    fam = [(nm, {'rules': r}) for nm, r in grammars.CORE if tier != 'quick' or nm in CORE_QUICK] + [(nm, {'gtext': g}) for nm, g in TEXT_GRAMMARS.items()]
    for nm, gs in fam:
        variants = [('TextLines', False), ('Buffer', True)] if tier == 'quick' else [('TextLines', False), ('TextLines', True), ('Buffer', False), ('Buffer', True)]
        for inp, pinfo in variants:
            for n in ((0, 2, 3) if tier == 'quick' else range(0, maxn + 1)):
                if tier == 'quick' and nm in ('meta_all', 'nullable_sep_gather_plus', 'nullable_sep_rule') and n == 3:
                    continue
                pre = ' and '.join(f'c{i} < 128' for i in range(n)) if nm.startswith('meta') else ''
                spec = {'grammar': nm, 'program': nm, 'input': inp, 'parseinfo': pinfo, 'n': n, **gs}
                obs.append(Ob(name=f'B_{nm}_{inp}_{"pi" if pinfo else "np"}_L{n}', factory='vt.props.c08b:make_errors', spec=spec,
                              params=[(f'c{i}', 0, UNI) for i in range(n)], budget={0: 40, 1: 40, 2: 90, 3: 300, 4: 1500}[n], group='B', extra_pre=pre))
    # C: compiling near-grammar text (shares the symbolic-hole machinery of C15)
    from . import c15
    for o in c15.obligations('quick', seed, group='C'):
        if tier != 'quick' or o.name in ('hole1_rule_def_op', 'hole1_leading', 'hole1_alert_level'):
            o.name = 'C_' + o.name
            obs.append(o)
    return obs


def bounds(tier):
    return (f'B: {10 if tier == "quick" else 40}+5 grammars x input class x parseinfo, text length 0..{3 if tier == "quick" else 4} over all Unicode (ASCII for the meta grammars). '
            'C: grammar text with a 1-code-point symbolic hole at the seeds of C15 (quick: 3 seeds): only TatSu exception types escape compile().')
