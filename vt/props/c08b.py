FUNCS = []
EXPLANATION = ''
OUTSIDE = ''
def obligations(tier, seed): return []
def bounds(tier): return ''
