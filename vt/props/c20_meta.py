META = {
    'level': 'other',
    'text': 'Bounded symbolic verification of escape transparency: symbolic style attributes x symbolic ESC-free text through the real Style.apply/apply_style and '
            'descape/visual_len (real regexes), colour policy with the environment stubbed and symbolic, and the repr/from_raw round trip with solver-realised '
            'attribute values. Transparency is a relation between arbitrary text, the escape grammar and attribute values (clamping, 16/256/RGB encodings).',
    'note': 'Trusted: CrossHair regex/string models validated per path natively; str.format. Stubs: os.environ, sys.stdout.isatty. Format-spec obligations are concolic '
            '(format() realises the text) and are reported as unexhausted when they do not finish.',
}
