META = {
    'level': 'other',
    'text': 'Symbolic execution of the real AST gate on template trees with symbolic identifier/attribute text (every string up to the bound), plus finite '
            'evaluation of the allow-list and of every builtin name through real grammars under an audit hook. The allowed set is computed by a deny-list over '
            'the running interpreter\'s builtins, so the check classifies every builtin independently instead of listing forbidden snippets.',
    'note': 'Trusted: the PURE classification in vt/props/c17.py; stub of safeeval.parse_expression (ast.parse is a C boundary) returning template trees; '
            'sys.addaudithook events open/import/os.*/subprocess.*/input/breakpoint as the observable for I/O.',
    'technique': 'symbolic execution (CrossHair/z3) of the real AST gate on template trees with symbolic identifiers; finite evaluation of the allow-list and of every builtin name through real grammars under an audit hook',
}
