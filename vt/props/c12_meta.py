META = {
    'level': 'other',
    'text': 'Bounded symbolic verification: for every text up to the stated length over all of Unicode (symbolic code points) the real '
            'line-cache/cursor code agrees at every offset with an independent line splitter; exhaustive over paths inside the bound '
            '(CrossHair "confirmed over all paths"), nothing claimed outside it. Positions are off-by-one prone at rare characters '
            '(CR, CRLF, VT, NEL...), which only a solver picks out of 1.1M code points.',
    'note': 'Trusted: CrossHair/z3 models of str/list/int (each path is re-executed natively on a solver-chosen witness and compared); '
            'Python str.splitlines as the per-character line-break class; the reference splitter in vt/props/c12.py.',
}
