META = {
    'level': 'translation_validation',
    'text': 'Bounded symbolic translation validation of the pretty-printer: original model vs the model recompiled from its pretty text, side by side on every text up to the '
            'bound, plus concrete structural comparison and fixpoint, plus symbolic token/pattern text through the quoting functions. Quoting and re-emission are per-node-type '
            'decisions; a node whose pretty form is not re-parsable or a dropped decorator only shows for grammars that contain it.',
    'note': 'The original model is the reference side. Grammars are a fixed family (not symbolic). Known finding F14 (a rule ending in {} swallows the next rule when re-read) is '
            'identified by its witness grammar.',
}
