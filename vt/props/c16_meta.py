META = {
    'level': 'other',
    'text': 'Solver-chosen rule graphs (adjacency bits / element kinds as symbolic variables), exhaustive over all graphs within the size bound: detection '
            'with left recursion off is exact, rules off every cycle stay memoized and unmarked, no graph/input recurses without bound, results equal seed '
            'growing. Leader selection has per-shape branches (two cycles in one component, self-loops next to longer cycles) that only systematic graph '
            'coverage reaches.',
    'note': 'Trusted: the brute-force cycle/SCC reference in vt/props/c16.py and refpeg\'s nullable/left-call analysis; CrossHair used as the enumerator of '
            'selector values for the runtime obligations (bodies run natively per path). Known finding F2 is identified by graph shape.',
    'technique': 'solver-chosen rule graphs (adjacency bits / element-kind selectors, every value explored by CrossHair/z3); mark_left_recursion executed symbolically on the graph; compile/parse per graph executed natively',
}
