"""C06 — semantic actions receive each rule's AST and their result replaces it."""
from __future__ import annotations

from ..grammars import A, C, EOF_, K, N, OPT, P, REP, S, T
from ..harness import mktext, skel
from ..runner import Ob

UNI = 0x110000

# name -> (rules, params, decorators)
GRAMMARS = {
    'alt_retry': ([('start', A(S(C('r'), T('x')), S(C('r'), T('y')), C('q'))), ('r', A(T('a'), T('b'))), ('q', S(P('[ab]'), OPT(T('z'))))], {}, {}),
    'params': ([('start', S(C('r'), OPT(C('q')))), ('r', A(T('a'), T('b'))), ('q', A(T('b'), T('c')))], {'r': (('A', 1), {}), 'q': ((), {'k': 2})}, {}),
    'nomemo': ([('start', A(S(C('r'), T('x')), S(C('r'), T('y')), S(C('r'), OPT(T('z'))))), ('r', A(T('a'), T('b')))], {}, {'r': ['nomemo']}),
    'closure_calls': ([('start', S(REP(C('r')), OPT(T('x')), EOF_)), ('r', A(T('a'), T('b')))], {}, {}),
    'named_rule': ([('start', S(N('l', C('r')), OPT(N('m', C('r'))))), ('r', A(S(T('a'), OPT(T('b'))), T('b')))], {}, {}),
    'nested': ([('start', A(S(C('p'), T('x')), C('p'))), ('p', A(S(C('r'), C('r')), C('r'))), ('r', A(T('a'), T('b')))], {}, {}),
    # rules whose value is a bare scalar: values that compare equal across types (1 == 1.0 == True, 0.0 == -0.0) must reach the action, and come
    # back from it, as the objects they are (results are compared type-strictly)
    # left recursion: an exception raised by an action during a seed-growing iteration (other than FailedSemantics) reaches the caller
    'leftrec': ([('start', S(C('e'), EOF_)), ('e', A(S(C('e'), T('+'), C('r')), C('r'))), ('r', A(T('a'), T('b')))], {}, {}),
    'scalars': ([('start', S(REP(C('r')), EOF_)), ('r', A(S(T('i'), K('1')), S(T('f'), K('1.0')), S(T('t'), K('True')), S(T('z'), K('0.0')), S(T('m'), K('-0.0')), S(T('o'), K('0'))))], {}, {}),
}
SEMANTICS_TATSU = ['raise_UserParseException', 'raise_UserParseError', 'raise_UserGrammarError']      # user exceptions derived from TatSu's own hierarchy
SEMANTICS = ['identity', 'tag', 'fail_b', 'raise_KeyError', 'raise_ValueError', 'raise_IndexError', 'raise_AttributeError', 'raise_TypeError', 'raise_Custom',
             'default_only', 'explicit_params']
SETTINGS = {'nameguard': False, 'whitespace': ''}


class CustomError(Exception):
    pass


class _LazyExc(dict):
    """exception classes by name; the TatSu-derived ones are created on first use (tatsu is imported by the obligation, not by this module)"""

    def __missing__(self, key):
        from tatsu import exceptions as tex
        base = {'UserParseException': tex.ParseException, 'UserParseError': tex.ParseError, 'UserGrammarError': tex.GrammarError}[key]
        cls = type(key, (base,), {})
        self[key] = cls
        return cls


EXC = _LazyExc({'KeyError': KeyError, 'ValueError': ValueError, 'IndexError': IndexError, 'AttributeError': AttributeError, 'TypeError': TypeError, 'Custom': CustomError})
EXC_NAMES = ['KeyError', 'ValueError', 'IndexError', 'AttributeError', 'TypeError', 'CustomError', 'UserParseException', 'UserParseError', 'UserGrammarError']


def strict(v):
    """type-strict form of a result: numbers and booleans carry their type (1, 1.0 and True differ; so do 0.0 and -0.0)"""
    if isinstance(v, bool):
        return ('bool', v)
    if isinstance(v, int) and not isinstance(v, str):
        return ('int', v)
    if isinstance(v, float):
        return ('float', repr(v))
    if isinstance(v, dict):
        return {k: strict(x) for k, x in v.items()}
    if isinstance(v, (list, tuple)):
        return [strict(x) for x in v]
    return v


def render(rules, params, decorators):
    from ..refpeg import render as rexp
    out = []
    for n, e in rules:
        ps, kws = params.get(n, ((), {}))
        plist = ', '.join([str(p) for p in ps] + [f'{k}={v}' for k, v in kws.items()])
        deco = ''.join(f'@{d}\n' for d in decorators.get(n, []))
        out.append(f"{deco}{n}{'(' + plist + ')' if plist else ''}: {rexp(e)} ;")
    return '\n'.join(out) + '\n'


def make_semantics(kind, log):
    """A fresh semantics object; every call is appended to log as (rule, skeleton of ast, params)."""
    from tatsu.exceptions import FailedSemantics

    def record(rule, ast, args, kwargs):
        kw = {k: v for k, v in kwargs.items() if k != 'parseinfo'}
        log.append((rule, ast, tuple(args), kw))

    class Base:
        pass

    def method(rule):
        def m(self, ast, *args, **kwargs):
            record(rule, ast, args, kwargs)
            if kind == 'identity':
                return ast
            if kind == 'tag':
                return (rule, ast)       # (a tuple: a plain list would be spliced into the caller's sequence, known finding F27)
            if kind == 'fail_b':
                if ast == 'b':
                    raise FailedSemantics('no b')
                return ast
            if kind.startswith('raise_'):
                if ast == 'b':
                    raise EXC[kind[6:]]('boom arguments' if kind == 'raise_TypeError' else 'boom')
                return ast
            return ast
        return m

    if kind == 'default_only':
        def _default(self, ast, *args, **kwargs):
            record('_default', ast, args, kwargs)
            return ('d', ast)
        Base._default = _default
    elif kind == 'explicit_params':
        def r(self, ast, p1=None, p2=None):
            record('r', ast, (p1, p2), {})
            return ('r', ast, p1, p2)

        def q(self, ast, k=None):
            record('q', ast, (), {'k': k})
            return ('q', ast, k)
        Base.r = r
        Base.q = q
    else:
        for rule in ('start', 'r', 'q', 'p'):
            setattr(Base, rule, method(rule))
    return Base()


def ref_actions(kind, log, rule_names):
    """the same behaviour plugged into the reference evaluator's hook"""
    from ..refpeg import SemanticFailure
    from tatsu.exceptions import FailedSemantics
    sem = make_semantics(kind, log)

    def call(rule, ast, ps, kws):
        m = getattr(sem, rule, None) or getattr(sem, '_default', None)
        if m is None:
            return ast
        try:
            if kind == 'explicit_params':
                if rule == 'r':
                    return m(ast, *(list(ps) + [None, None])[:2])
                return m(ast, **{k: v for k, v in kws.items() if k == 'k'})
            return m(ast, *ps, **kws)
        except FailedSemantics:
            raise SemanticFailure() from None
    return call


def make_sem(spec):
    from tatsu.exceptions import FailedParse
    from ..pegbody import Engine, GenParser, norm
    from ..refpeg import Fail, G, Ref
    rules, params, decorators = GRAMMARS[spec['grammar']]
    kind = spec['semantics']
    gtext = render(rules, params, decorators)
    eng = Engine(gtext, SETTINGS)
    gen = GenParser(gtext, SETTINGS)
    g = G(rules, nameguard=False, whitespace=None, rule_params=params)
    nomemo = {n for n, d in decorators.items() if 'nomemo' in d}
    names = [n for n, _ in rules]

    def run_real(parser, t, sem):
        try:
            r = parser.parse(t, **({'semantics': sem} if sem is not None else {}))
            return (r[0], strict(norm(r[1])) if r[0] == 'ok' else None)
        except RecursionError:
            return ('recursion', None)
        except Exception as e:  # noqa: BLE001
            return ('raised', type(e).__name__)

    def run_ref(t, log):
        try:
            v, q = Ref(g, t, actions=ref_actions(kind, log, names)).parse()
            return ('ok', strict(norm(v)))
        except Fail:
            return ('fail', None)
        except Exception as e:  # noqa: BLE001
            return ('raised', type(e).__name__)

    def counts(log):
        c = {}
        for rec in log:
            c[rec[0]] = c.get(rec[0], 0) + 1
        return c

    def body(args):
        t = mktext(args)
        rlog, glog, flog = [], [], []
        real = run_real(eng, t, make_semantics(kind, rlog))
        other = run_real(gen, t, make_semantics(kind, glog))
        ref = run_ref(t, flog)
        if real[0] == 'raised' and real[1] not in EXC_NAMES:
            return False, 'unexpected-exception', real[1]
        if not (real == ref):
            return False, 'model-vs-reference', [real[0], ref[0], real[1] if real[0] == 'raised' else skel(real[1]), ref[1] if ref[0] == 'raised' else skel(ref[1])]
        if not (other == real):
            return False, 'generated-vs-model', [other[0], real[0], other[1] if other[0] == 'raised' else skel(other[1])]
        if kind == 'identity':
            plain = run_real(eng, t, None)
            if not (plain == real):
                return False, 'identity-differs-from-no-semantics', [plain[0], real[0]]
        # every call the real parser made is a call the reference made (same rule, AST and parameters)
        for log in (rlog, glog):
            for rec in log:
                found = False
                for f in flog:
                    if rec[0] == f[0] and rec[2] == f[2] and rec[3] == f[3] and strict(rec[1]) == strict(f[1]):
                        found = True
                        break
                if not found:
                    return False, 'call-not-in-reference', [rec[0], skel(rec[1]), list(rec[2]), rec[3]]
            rc, fc = counts(log), counts(flog)
            for name in fc:
                if rc.get(name, 0) > fc[name]:
                    return False, 'called-more-often-than-evaluated', [name, rc.get(name, 0), fc[name]]
                if name in nomemo and real[0] != 'raised' and rc.get(name, 0) != fc[name]:
                    return False, 'nomemo-count', [name, rc.get(name, 0), fc[name]]
                if rc.get(name, 0) == 0 and real[0] != 'raised':
                    return False, 'action-never-called', [name]
        tag = real[0] if real[0] != 'raised' else 'raised'
        return True, tag if tag != 'fail' else 'fail', [tag, len(rlog), len(flog)]

    def explain(args):
        t = mktext(args)
        rlog, glog, flog = [], [], []
        return (f'grammar:\n{gtext}semantics={kind} text={t!r}\nmodel={run_real(eng, t, make_semantics(kind, rlog))} calls={rlog}\n'
                f'generated={run_real(gen, t, make_semantics(kind, glog))} calls={glog}\nreference={run_ref(t, flog)} calls={flog}')

    body.explain = explain
    n = spec['n']
    body.warm = [tuple(map(ord, w)) for w in ['', 'a', 'b', 'a+b', 'b+a', 'a+a', 'a+', 'ax', 'by', 'bx', 'bz', 'ab', 'ba', 'aax', 'abx', 'bb', 'aab', 'bc', 'abz', 'c', 'aa', 'az', 'bbb', 'aby',
                                              'i', 'if', 'ift', 'zm', 'oz', 'tfi', 'mzo', 'fi'] if len(w) == n]
    return body


def native_checks():
    import tatsu
    from ..known import tolerated
    known = tolerated('C06')

    class ListTag:
        def r(self, ast):
            return ['r', ast]
    got = tatsu.compile("start: r r ;\nr: 'a' ;\n").parse('a a', semantics=ListTag())
    ok = list(got) == [['r', 'a'], ['r', 'a']]
    return [{'name': 'list_returned_by_action_is_one_element', 'ok': ok, 'known': None if ok or 'F27' not in known else 'F27', 'detail': repr(got)}]


def make_reuse(spec):
    """ONE generated-parser object parses the same text twice with different semantics objects: the second parse must call the methods of the
    object given to THAT parse (or none), exactly like a fresh parser."""
    from ..pegbody import GenParser, norm
    rules, params, decorators = GRAMMARS[spec['grammar']]
    gtext = render(rules, params, decorators)
    gen = GenParser(gtext, SETTINGS)
    first, second = spec['first'], spec['second']

    def run(parser, t, kind, log):
        from tatsu.exceptions import FailedParse
        kw = {} if kind == 'none' else {'semantics': make_semantics(kind, log)}
        try:
            return ('ok', norm(parser.parse(t, **SETTINGS, **kw)))
        except FailedParse:
            return ('fail', None)
        except Exception as e:  # noqa: BLE001
            return ('raised', type(e).__name__)

    def body(args):
        t = mktext(args)
        shared = gen.cls()
        l1, l2, l3 = [], [], []
        run(shared, t, first, l1)
        got = run(shared, t, second, l2)
        want = run(gen.cls(), t, second, l3)
        if got != want:
            return False, 'second-parse-differs-from-fresh-parser', [got[0], want[0], skel(got[1]) if got[0] == 'ok' else got[1], skel(want[1]) if want[0] == 'ok' else want[1]]
        if [r[0] for r in l2] != [r[0] for r in l3]:
            return False, 'second-parse-called-other-actions', [[r[0] for r in l2], [r[0] for r in l3]]
        return True, got[0], [len(l2)]

    n = spec['n']
    body.explain = lambda args: f'grammar:\n{gtext}text={mktext(args)!r} first={first} second={second}'
    body.warm = [tuple(map(ord, w)) for w in ['', 'a', 'b', 'ax', 'by', 'ab', 'aax', 'abx', 'bb', 'bc', 'abz'] if len(w) == n]
    return body


def plan(tier, seed):
    obs = []
    for gn, first, second in (('alt_retry', 'tag', 'default_only'), ('alt_retry', 'tag', 'none'), ('alt_retry', 'none', 'tag'), ('params', 'explicit_params', 'tag')):
        for n in ((1, 2) if tier == 'quick' else (1, 2, 3)):
            obs.append(Ob(name=f'reuse_{gn}_{first}_then_{second}_L{n}', factory='vt.props.c06:make_reuse', spec={'grammar': gn, 'first': first, 'second': second, 'n': n},
                          params=[(f'c{i}', 0, UNI) for i in range(n)], budget={1: 60, 2: 150, 3: 600}[n], group='reuse'))
    maxn = 3 if tier == 'quick' else 4
    gs = list(GRAMMARS)
    for gn in gs:
        sems = SEMANTICS
        if tier == 'quick':
            sems = {'alt_retry': SEMANTICS[:9], 'params': ['tag', 'explicit_params', 'default_only', 'identity'], 'nomemo': ['tag', 'fail_b', 'raise_KeyError', 'identity'],
                    'closure_calls': ['tag', 'fail_b', 'raise_TypeError'], 'scalars': ['identity', 'tag'], 'leftrec': ['tag', 'fail_b', 'raise_ValueError', 'raise_UserParseException', 'raise_UserGrammarError'], 'named_rule': ['tag', 'default_only', 'fail_b'], 'nested': ['tag', 'fail_b', 'raise_KeyError']}[gn]
        if tier != 'quick':
            sems = list(sems) + (SEMANTICS_TATSU if gn in ('leftrec', 'alt_retry', 'nested') else [])
        for sk in sems:
            if sk == 'explicit_params' and gn != 'params':
                continue
            for n in range(0, maxn + 1):
                if tier == 'quick' and n < 2 and sk not in ('tag', 'fail_b'):
                    continue
                if tier == 'quick' and gn == 'scalars' and n > 2:
                    continue        # six alternatives per position: length 3 costs 4 CPU-minutes; 'if' (1 then 1.0 through one action) is a length-2 text
                obs.append(Ob(name=f'{gn}_{sk}_L{n}', factory='vt.props.c06:make_sem', spec={'grammar': gn, 'semantics': sk, 'n': n},
                              params=[(f'c{i}', 0, UNI) for i in range(n)], budget={0: 40, 1: 40, 2: 90, 3: 400, 4: 2400}[n], group=sk,
                              require_tags=('ok',) if n == 2 and sk in ('tag', 'identity') and gn not in ('closure_calls', 'leftrec') else ()))
    return {
        'obligations': obs,
        'native': native_checks,
        'level': 'other',
        'programs': len(gs),
        'explanation': 'Grammars with rule parameters and @nomemo, each with a semantics object from a fixed set (identity, tagging, FailedSemantics on a predicate, raising '
                       'KeyError/ValueError/IndexError/AttributeError/TypeError/custom on a predicate, _default only, methods with declared parameters). For every text '
                       'of n symbolic code points: the model, the generated parser and the reference evaluator with the same actions plugged into its rule hook agree on '
                       'the result (value, parse failure, or the exception type that escapes); identity == no semantics; every action call made by the real parsers is a '
                       'call of the reference with the same rule, AST and parameters; a rule\'s action is never called more often than the rule body is evaluated, '
                       'exactly as often for @nomemo rules, and at least once when the rule body succeeded.',
        'functions_encoded': ['tatsu.contexts.core:find_cached_semantic_action', 'tatsu.contexts.engine:ParserEngine.semantics_call/rule_call/func_call', 'tatsu.util.typetools:BoundCallable.bind/_actual_bind/boundcall',
                              'tatsu.peg.syntax:Call._parse', 'tatsu.peg.base:Rule._parse/ruleinfo', 'tatsu.contexts.decorator.rule|basic:rule/nomemo', 'tatsu.contexts.context:ParseContext.expcall'],
        'bounds': f'{len(gs)} grammars x up to {len(SEMANTICS)} semantics objects, model and generated parser; text length 0..{maxn} over all Unicode; whitespace "", nameguard off',
        'outside': 'longer texts; semantics combined with left recursion; actions that mutate their argument; set_context/safe_context hooks',
        'assumptions': ['refpeg evaluates every rule body without memoization: its call log is the upper bound and, for @nomemo, the exact count'],
    }
