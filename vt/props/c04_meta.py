META = {
    'level': 'other',
    'text': 'Bounded symbolic self-differential verification: the real engine under the default configuration vs one configuration variant per '
            'obligation (memoization off / memo capacity 1 / no pruning at cuts / parseinfo), for every text up to the bound on backtracking-heavy '
            'and left-recursive grammars; tracing and colouring compared natively on each path\'s witness; BoundedDict and MemoKey step '
            'obligations over symbolic operation sequences. A wrong memo key or stale entry only shows when the same rule is retried at the same '
            'position after backtracking, which the solver enumerates as input classes.',
    'note': 'Reference-free (both sides are the real code); trusted: CrossHair/z3 models validated per path natively; tracer output discarded. '
            'Capacity 1 is reached on one-line texts only (capacity scales with the line count). Outcome, AST, failure position and error class are compared; known '
            'finding F40 (the error CLASS differs under memoization when two failures tie at the furthest position) is identified by signature (same position, only the class differs).',
}
