META = {
    'level': 'other',
    'text': 'Bounded symbolic differential verification: real engine vs an independent reference evaluator of the documented PEG semantics, both '
            'symbolically executed on texts of symbolic code points; verdict over all texts of each length for each enumerated grammar. '
            'Right level because AST assembly is a function of the whole expression tree and input, and the solver covers every input class '
            '(rare whitespace/name characters included) instead of a sampled alphabet.',
    'note': 'Trusted: vt/refpeg.py as the reading of the documentation; CrossHair/z3 models (validated per path by native re-execution on a '
            'solver-chosen witness). Grammars are enumerated from a bounded family, not symbolic.',
}
