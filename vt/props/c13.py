"""C13 — pretty-printed grammars recompile to the same parser and are a fixpoint."""
from __future__ import annotations

from .. import grammars
from ..harness import _tracing, mktext
from ..known import tolerated
from ..runner import Ob

UNI = 0x110000

FAMILY = {
    'directives': "@@grammar :: D\n@@nameguard :: False\n@@ignorecase :: True\n@@namechars :: '-'\n@@whitespace :: /[\\t ]+/\nstart: 'a' 'B' ['a-'] $ ;\n",
    'comments': "@@comments :: /\\(\\*.*?\\*\\)/\n@@eol_comments :: /#[^\\n]*/\nstart: {'a'}+ $ ;\n",
    'keywords': "@@keyword :: if 'a b' fi\nstart: {word}+ $ ;\n@name\nword: /[a-z]+/ ;\n",
    'params': "start: r q ;\nr(A, 1): 'a' ;\nq[k=2]: 'b' | () ;\n",
    'typed': "start::Top: x=item y=[item] ;\nitem::Item::Base: /[ab]/ ;\n",
    'based': "start: d | b ;\nb: x='a' ;\nd < b: y='b' ;\n",
    'nomemo_override': "start: r r2 ;\nr2: 'x' ;\n@nomemo\nr: 'a' ;\n@override\nr2: 'b' | 'a' ;\n",
    'eol_skipto': "start: 'a' $-> 'b' | ->'b' 'a' ;\n",
    'meta': "start: @int | @name [@uint] | @bool ;\n",
    'alerts_constants': "start: 'a' ^`warn` `7` | 'b' ^^`two` `x` ;\n",
    'pattern_slash': "start: /a\\/b/ | ?'c/d' | /[\\/] / ;\n",
    'pattern_backslash_slash': 'start: ","%{ ?"[\\\\/]" }+ | ?"a\\\\/b" ;\n',
    'pattern_quotes': "start: /a'b/ | /a\"b/ | ?\"x'y\" ;\n",
    'token_quotes': "start: \"c'd\" | 'e\"f' | '\\\\' ;\n",
    'token_backslash': "start: 'a\\\\b' | 'a\\nb' | '\\t' ;\n",
    'joins': "start: ','%{'a'}+ | ';'.{'b'} | ','%{'c'} $ ;\n",
    'lookaheads_groups': "start: &'a' (?:'a') ('b' | 'c')* !'d' /./? ;\n",
    'named_forms': "start: x='a' y+='b' @:'c' | @+:'d' z:'e' ;\n",
    'include': "start: q ['b'] $ ;\nr: x='a' ;\nq: >r ':' y=['a'] ;\n",      # (start first: the first rule is the default start rule; the include sits in a rule that is called)
    'choice_in_closure': "start: { 'a' | 'b' 'c' | () 'd' }+ ;\n",
    'cut_forms': "start: 'a' ~ 'b' | 'a' 'c' ;\n",
    'leftrec': "start: e $ ;\ne: e '+' t | t ;\nt: /[0-9]/ | '(' ~ e ')' ;\n",
    'long_rule': "start: " + " | ".join(f"'k{i}' 'v{i}'" for i in range(14)) + " ;\n",
    'many_keywords': ''.join('@@keyword :: ' + ' '.join(f'kw{i:02d}' for i in range(j, j + 6)) + '\n' for j in range(0, 30, 6)) + "@@keyword :: 'a b' zz\nstart: {word}+ $ ;\n@name\nword: /[a-z]+[0-9]*/ ;\n",
    'wide_tokens': "start: '你好' 'a' | 'a' '＄' $ | {'ü' | /[一-龥]+/}+ ['＄x'] ;\n",
    'falsy_constants': "start: 'a' `0` | 'b' `` | 'c' `False` | 'd' `0.0` 'e' `''` ;\n",
    'two_decorators': "start: {r}+ q $ ;\n@nomemo\n@name\nr: /[a-z]/ ;\n@name\n@nomemo\nq: /[0-9]/ ;\n",
    'params_null': "start: r q ;\nr(A, sep=None, k=2): 'a' ;\nq[B, flag=True]: 'b' | () ;\n",
    'params_based': "start: d | b ;\nb(X): x='a' ;\nd(S, 2) < b: y='b' ;\n",
    'whitespace_none': "@@whitespace :: None\nstart: 'a' 'b' {/ /} $ ;\n",
    'whitespace_novalue': "@@whitespace ::\n@@nameguard :: False\nstart: 'a' 'b' {/ /} $ ;\n",
    'dot_void_fail': "start: 'a' /./ () | 'b' !() | 'c' {} 'd' ;\n",
}
ANTLR = {
    'antlr_decls': "grammar Decls;\nstart: decl EOF;\ndecl: target=(name ('.' name)?) (init=('=' value))? ;\nname: 'a' | 'b';\nvalue: '1' | '2';\n",
    'antlr_list': "grammar L;\nstart: '[' items+=item (',' items+=item)* ']' | name ;\nitem: x=name | pair=('(' start ')') ;\nname: 'a' | 'b' ;\n",
}
QUICK = ['directives', 'keywords', 'params', 'based', 'nomemo_override', 'eol_skipto', 'pattern_slash', 'pattern_backslash_slash', 'token_quotes', 'token_backslash', 'joins', 'named_forms',
         'lookaheads_groups', 'alerts_constants', 'typed', 'dot_void_fail', 'include', 'params_based', 'whitespace_none', 'many_keywords']


def make_quoting(spec):
    """Token/pattern text with symbolic characters -> _pretty() -> re-read through the real grammar -> same token/pattern text"""
    import tatsu
    from tatsu import peg
    kind = spec['kind']

    def body(args):
        s = mktext(args)
        if kind == 'pattern':
            if len((s + 'x').splitlines()) > 1:
                return True, 'triv:multi-line-pattern', None       # multi-line patterns are re-indented by design: outside the claim
            import re
            try:
                re.compile(s)
            except Exception:  # noqa: BLE001
                return True, 'triv:not-a-regex', None
        try:
            node = peg.Token(token=s) if kind == 'token' else peg.Pattern(pattern=s)
            text = node._pretty()
        except Exception as e:  # noqa: BLE001
            return False, 'pretty-exception', type(e).__name__ + ': ' + str(e)[:60]
        if _tracing():
            return True, 'pretty-ok', None
        try:
            m = tatsu.compile(f'start: {text} ;\n')
        except Exception as e:  # noqa: BLE001
            if kind == 'token' and "'" in s and '"' in s and 'F31' in tolerated('C13'):
                return True, 'known:F31', [s, text]
            return False, 'pretty-not-reparsable', [text, type(e).__name__ + ': ' + str(e)[:60]]
        exp = m.rules[0].exp
        got = getattr(exp, 'token', None) if kind == 'token' else getattr(exp, 'pattern', None)
        if kind == 'pattern' and s == '.' and type(exp).__name__ == 'Dot':
            return True, 'pretty-ok', None          # /./ is read as the any-character expression
        if got != s:
            return False, 'text-changed', [s, text, got]
        return True, 'pretty-ok', None

    n = spec['n']
    body.explain = lambda args: f'{kind} text={mktext(args)!r}'
    body.warm = [tuple(map(ord, w)) for w in ["a", "'", '"', '\\', 'ab', "a'", '\\\\', '/', 'a/', "'\"", 'a\nb', '\\n', 'a b', "/'\"", '\t', '[/]', 'a\\/'] if len(w) == n]
    return body


RAIL_CELLS = ['ab', '你', 'a＄', '', 'x─→']       # narrow, wide (display width 2), holding the end-of-text mark, empty, box-drawing


def make_rails(spec):
    """railmath kernels on rails chosen by selectors: tracks of 1-2 rails whose cells are narrow / wide / ETX-bearing / empty strings, each track padded to one
    width (the functions' precondition); lay_out, weld, loop and stopnloop must return rails of ONE display width (their own assertion), weld's width is the sum of
    its operands' widths, and no rail of the input is lost"""
    from tatsu.railroads import railmath as rm
    from tatsu.util import unicode_display_len as ulen
    first = spec['first']
    ABSENT = len(RAIL_CELLS)

    def track(a, b):
        rails = [RAIL_CELLS[a]] + ([RAIL_CELLS[b]] if b != ABSENT else [])
        w = max(ulen(r) for r in rails)
        return [rm.blankpad(r, w) for r in rails]

    def native(sel):
        t0 = track(first, sel[0])
        t1 = track(sel[1], sel[2])
        tracks = [t0, t1] + ([track(sel[3], ABSENT)] if sel[3] != ABSENT else [])
        try:
            for name, f in (('lay_out', lambda: rm.lay_out([t[:] for t in tracks])), ('weld', lambda: rm.weld(*[t[:] for t in tracks])),
                            ('loop', lambda: rm.loop(t0[:] + t1[:1])), ('stopnloop', lambda: rm.stopnloop(t1[:] + t0[:1]))):
                out = f()
                widths = {ulen(r) for r in out}
                if len(widths) > 1:
                    return False, name + '-widths-differ', [sorted(widths), out]
                if not out:
                    return False, name + '-empty', None
                if name == 'lay_out' and len(out) != sum(len(t) for t in tracks):
                    return False, 'lay_out-rail-count', [len(out), [len(t) for t in tracks]]
                if name == 'weld' and not any(rm.ETX in r for t in tracks[:-1] for r in t):
                    if widths != {sum(ulen(t[0]) for t in tracks)}:
                        return False, 'weld-width', [sorted(widths), [ulen(t[0]) for t in tracks]]
        except AssertionError as e:
            return False, 'assertion', str(e)[:100]
        except Exception as e:  # noqa: BLE001
            return False, 'exception', type(e).__name__ + ': ' + str(e)[:80]
        return True, 'one-width', None

    cache = {}

    def pick(a, hi):
        v = 0
        for i in range(hi):
            if a == i:
                v = i
        return v

    def body(args):
        if _tracing():
            sel = (pick(args[0], ABSENT + 1), pick(args[1], ABSENT), pick(args[2], ABSENT + 1), pick(args[3], ABSENT + 1))
            from crosshair.tracers import NoTracing
            with NoTracing():
                cache.clear()
                cache[sel] = r = native(sel)
                return r
        return cache.get(tuple(args)) or native(tuple(args))

    body.explain = lambda args: repr(native(tuple(args)))
    body.warm = [(ABSENT, 0, ABSENT, ABSENT), (1, 2, 0, 1)]
    return body


def native_checks():
    import tatsu
    from ..equiv import concrete_relation, variants_of
    known = tolerated('C13')
    out = []
    fam = dict(FAMILY)
    for nm, rules in grammars.CORE:
        from ..refpeg import render_grammar
        fam['core_' + nm] = render_grammar(rules)
    bad = []
    for nm, g in fam.items():
        try:
            m = tatsu.compile(g, name='VT')
        except Exception as e:  # noqa: BLE001
            bad.append([nm, 'family grammar does not compile', repr(e)[:200]])
            continue
        vs = variants_of(m, g, ['pretty'])
        for (what, ok, detail) in concrete_relation(m, vs):
            if not ok:
                bad.append([nm, what, repr(detail)[:200]])
    out.append({'name': f'pretty_compiles_same_rules_directives_keywords_fixpoint[{len(fam)}]', 'ok': not bad, 'detail': bad[:8]})
    # the TatSu grammar itself loaded from the shipped model, and two ANTLR grammars through g2e
    try:
        from tatsu.boot.bootparser import GRAMMAR_MODEL
        vs = variants_of(GRAMMAR_MODEL, None, ['pretty'])
        bad = [[w, repr(d)[:200]] for (w, ok, d) in concrete_relation(GRAMMAR_MODEL, vs) if not ok]
        out.append({'name': 'tatsu_grammar_model_pretty_roundtrip', 'ok': not bad, 'detail': bad[:4]})
    except Exception as e:  # noqa: BLE001
        out.append({'name': 'tatsu_grammar_model_pretty_roundtrip', 'ok': False, 'detail': repr(e)[:200]})
    # railroads: every model of the family renders, tracks of one width
    bad = []
    for nm, g in fam.items():
        try:
            m = tatsu.compile(g, name='VT')
            rr = m.railroads() if hasattr(m, 'railroads') else None
            if rr is None:
                from tatsu import railroads
                rr = railroads.text(m)
            if not isinstance(rr, str) or not rr.strip():
                bad.append([nm, 'empty'])
        except Exception as e:  # noqa: BLE001
            bad.append([nm, type(e).__name__ + ': ' + str(e)[:100]])
    out.append({'name': f'railroads_render[{len(fam)}]', 'ok': not bad, 'detail': bad[:6]})
    # known finding F14
    g = "start: 'a' {}\n\nr: ','\n"
    m = tatsu.compile(tatsu.compile("start: 'a' {} ;\nr: ',' ;\n").pretty())
    ok = [r.name for r in m.rules] == ['start', 'r']
    out.append({'name': 'rule_ending_in_empty_closure_keeps_next_rule', 'ok': ok, 'known': None if ok or 'F14' not in known else 'F14', 'detail': [r.name for r in m.rules]})
    return out


def plan(tier, seed):
    obs = []
    maxn = 3 if tier == 'quick' else 4
    names = QUICK if tier == 'quick' else list(FAMILY)
    for nm in names:
        for n in range(0, maxn + 1):
            if tier == 'quick' and n in (0, 1):
                continue
            pre = ' and '.join(f'c{i} < 128' for i in range(n)) if nm == 'meta' else ''
            obs.append(Ob(name=f'{nm}_L{n}', factory='vt.equiv:make_equiv', spec={'program': nm, 'gtext': FAMILY[nm], 'variants': ['pretty'], 'n': n},
                          params=[(f'c{i}', 0, UNI) for i in range(n)], budget={0: 40, 1: 40, 2: 120, 3: 500, 4: 2400}[n], group='pretty', extra_pre=pre))
    if tier != 'quick':
        from ..refpeg import render_grammar
        for nm, rules in grammars.CORE:
            for n in (2, 3):
                obs.append(Ob(name=f'core_{nm}_L{n}', factory='vt.equiv:make_equiv', spec={'program': 'core_' + nm, 'gtext': render_grammar(rules), 'variants': ['pretty'], 'n': n},
                              params=[(f'c{i}', 0, UNI) for i in range(n)], budget={2: 120, 3: 500}[n], group='pretty-core'))
    for nm, text in ANTLR.items():
        for n in ((2, 3) if tier == 'quick' else (2, 3, 4)):
            obs.append(Ob(name=f'{nm}_L{n}', factory='vt.equiv:make_equiv', spec={'program': nm, 'antlr': text, 'variants': ['pretty'], 'n': n,
                                                                                  'warm': ['', 'a.b', 'a=1', 'a.', 'a', '[a]', '[a,b]', 'ab', '(a)', 'i a;', '[ab', 'fa.a;', 'ib=2;']},
                          params=[(f'c{i}', 0, UNI) for i in range(n)], budget={2: 120, 3: 500, 4: 2400}[n], group='antlr'))
    for first in range(len(RAIL_CELLS)):
        k = len(RAIL_CELLS)
        obs.append(Ob(name=f'R_rails_first{first}', factory='vt.props.c13:make_rails', spec={'first': first, 'program': 'railmath'},
                      params=[('s0', 0, k + 1), ('s1', 0, k), ('s2', 0, k + 1), ('s3', 0, k + 1)], budget=400, group='rails', require_tags=('one-width',)))
    for kind in ('token', 'pattern'):
        for n in ((1, 2) if tier == 'quick' else (1, 2, 3)):
            obs.append(Ob(name=f'Q_{kind}_quoting_len{n}', factory='vt.props.c13:make_quoting', spec={'kind': kind, 'n': n, 'program': kind + '-quoting'},
                          params=[(f'c{i}', 0, UNI) for i in range(n)], budget=60 if tier == 'quick' else 1200, group='quoting'))
    return {
        'obligations': obs,
        'native': native_checks,
        'level': 'translation_validation',
        'programs': len(names) + 2,
        'explanation': 'Translation validation of pretty(): for each grammar model of the family the pretty-printed text is compiled again (concretely: it compiles, has the '
                       'same rules/parameters/decorators/base rules, directives and keywords, and pretty() of it is the same text) and the original and recompiled models '
                       'are executed symbolically side by side on a text of n symbolic code points: same outcome, end position and AST. Token/pattern quoting: '
                       'Token/Pattern._pretty() on symbolic text (re-read through the real grammar natively on each witness). Railroads: every model of the family renders '
                       '(including tokens of wide characters and of the end-of-text mark); railmath kernels lay_out/weld/loop/stopnloop on rails chosen by selectors (narrow, wide, '
                       'ETX-bearing, empty, box-drawing cells; 2-3 tracks of 1-2 rails): results have one display width, weld adds widths, lay_out keeps every rail.',
        'functions_encoded': ['tatsu.peg.base:Grammar._pretty/Rule._pretty', 'tatsu.peg.*:*._pretty', 'tatsu.peg.pattern:Pattern._pretty', 'tatsu.peg.basic:Token._pretty', 'tatsu.api.api:compile (bootstrap parse of the pretty text, concrete)',
                              'tatsu.railroads.walker (native)', 'tatsu.railroads.railmath:lay_out/weld/weldtwo/loop/stopnloop/looptail/assert_one_length (selectors, native per path)'],
        'bounds': f'{len(names)} grammar models (directives, keywords, parameters, types, based rules, decorators, $->, ->, @meta, alerts, constants, patterns/tokens with slashes, quotes, '
                  f'backslashes, joins, lookaheads, includes, left recursion); text length {2 if tier == "quick" else 0}..{maxn} over all Unicode; token/pattern text of 1..{2 if tier == "quick" else 3} code points',
        'outside': 'longer texts; models translated from ANTLR (g2e) are exercised natively only if the package data is present; rail widths are the function\'s own assertion',
        'assumptions': ['the original model is the reference side'],
    }
