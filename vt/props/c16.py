"""C16 — left recursion is detected exactly, and never causes unbounded recursion."""
from __future__ import annotations

import sys

from ..known import tolerated
from ..runner import Ob

NAMES = 'abcd'


# ---------------- independent graph reference (plain Python on ints) ----------------
def on_cycle(adj, n, i):
    seen = set()
    stack = [j for j in range(n) if adj[i][j]]
    while stack:
        v = stack.pop()
        if v == i:
            return True
        if v in seen:
            continue
        seen.add(v)
        stack.extend(j for j in range(n) if adj[v][j])
    return False


def simple_cycles(adj, n):
    """all simple cycles as node bit masks (n <= 4: brute-force DFS from the smallest node of each cycle)"""
    out = []

    def dfs(start, v, mask):
        for w in range(n):
            if not adj[v][w]:
                continue
            if w == start:
                if mask not in out:
                    out.append(mask)
            elif w > start and not (mask >> w) & 1:
                dfs(start, w, mask | (1 << w))
    for s in range(n):
        dfs(s, s, 1 << s)
    return out


def sccs(adj, n):
    reach = [[bool(adj[i][j]) for j in range(n)] for i in range(n)]
    for k in range(n):
        for i in range(n):
            for j in range(n):
                reach[i][j] = reach[i][j] or (reach[i][k] and reach[k][j])
    comps, done = [], 0
    for i in range(n):
        if (done >> i) & 1:
            continue
        comp = 1 << i
        for j in range(n):
            if reach[i][j] and reach[j][i]:
                comp |= 1 << j
        done |= comp
        comps.append(comp)
    return comps


def f2_shape(adj, n):
    """known finding F2: some strongly connected component has cycles with no node common to all of them"""
    cyc = simple_cycles(adj, n)
    for comp in sccs(adj, n):
        inside = [c for c in cyc if c & ~comp == 0]
        if len(inside) >= 2:
            common = comp
            for c in inside:
                common &= c
            if common == 0:
                return True
    return False


def grammar_text(adj, n, directives=''):
    rules = []
    for i in range(n):
        opts = [f"{NAMES[j]} 'x'" for j in range(n) if adj[i][j]] + ["'y'"]
        rules.append(f"{NAMES[i]}: {' | '.join(opts)} ;")
    return directives + '\n'.join(rules) + '\n'


def ref_rules(adj, n):
    from ..grammars import A, C, S, T
    return [(NAMES[i], A(*([S(C(NAMES[j]), T('x')) for j in range(n) if adj[i][j]] + [T('y')]))) for i in range(n)]


BATTERY = ['y', 'yx', 'yxx', 'yxxx', 'x', '', 'yy', 'yxy']


def make_graph(spec):
    """args: the free adjacency bits (row-major); spec['fixed']: leading bits fixed per obligation (thorough split)."""
    import tatsu
    from tatsu.exceptions import FailedParse, GrammarError
    from ..harness import _tracing
    from ..pegbody import norm
    from ..refpeg import G, Fail, Ref
    n = spec['n']
    fixed = spec.get('fixed', [])
    known = tolerated('C16')

    def native(bits):
        adj = [[bool(bits[i * n + j]) for j in range(n)] for i in range(n)]
        cyc = [on_cycle(adj, n, i) for i in range(n)]
        anycycle = any(cyc)
        text = grammar_text(adj, n)
        # 1. left recursion switched off: grammar error exactly when a cycle exists
        try:
            tatsu.compile(grammar_text(adj, n, '@@left_recursion :: False\n'))
            raised = False
        except GrammarError:
            raised = True
        except Exception as e:  # noqa: BLE001
            return False, 'lrec-off-exception', repr(e)[:100]
        if raised != anycycle:
            return False, 'lrec-off-detection', [raised, anycycle]
        # 2. left recursion on: marking of rules on no cycle, bounded recursion, seed-growing results
        try:
            model = tatsu.compile(text)
        except Exception as e:  # noqa: BLE001
            return False, 'compile-exception', repr(e)[:100]
        for i in range(n):
            r = model.rulemap[NAMES[i]]
            if not cyc[i] and (r.is_lrec or not r.is_memo):
                return False, 'acyclic-rule-marked', [NAMES[i], bool(r.is_lrec), bool(r.is_memo)]
        g = G(ref_rules(adj, n), nameguard=False, whitespace=None)
        gs = G(ref_rules(adj, n), nameguard=False, whitespace=None, leaders=[NAMES[i] for i in range(n) if model.rulemap[NAMES[i]].is_lrec])

        def static(t, st):
            # the reference with seed growing restricted to the rules the model marked as leaders (quirk of known finding F15)
            try:
                v, q = Ref(gs, t).parse(st)
                return ('ok', v)
            except Fail:
                return ('fail',)
            except RecursionError:
                return ('recursion',)
        bad_recursion = None
        for start in range(n):
            for t in BATTERY:
                old = sys.getrecursionlimit()
                sys.setrecursionlimit(600)
                try:
                    try:
                        real = ('ok', norm(model.parse(t, start=NAMES[start], nameguard=False, whitespace='')))
                    except FailedParse:
                        real = ('fail',)
                    except RecursionError:
                        real = ('recursion',)
                    except Exception as e:  # noqa: BLE001
                        real = ('exception', repr(e)[:80])
                finally:
                    sys.setrecursionlimit(old)
                if real[0] == 'recursion':
                    bad_recursion = [NAMES[start], t]
                    break
                if real[0] == 'exception':
                    return False, 'parse-exception', [NAMES[start], t, real[1]]
                try:
                    v, q = Ref(g, t).parse(NAMES[start])
                    ref = ('ok', v)
                except Fail:
                    ref = ('fail',)
                if real != ref:
                    # a terminating but shorter parse than seed growing at the entered rule: known finding F15
                    if 'F15' in known and (real == static(t, NAMES[start]) or f2_shape(adj, n)):
                        return True, 'known:F15', [text, NAMES[start], t, repr(real)[:60], repr(ref)[:60]]
                    return False, 'seed-growing-result', [NAMES[start], t, repr(real)[:80], repr(ref)[:80]]
            if bad_recursion:
                break
        if bad_recursion:
            return False, 'unbounded-recursion', bad_recursion
        return True, ('cyclic' if anycycle else 'triv:acyclic'), [sum(cyc)]

    cache = {}

    def body(args):
        # the solver only chooses the graph (one fork per adjacency bit); everything else is concrete and runs natively
        bits = list(fixed) + [1 if a else 0 for a in args]
        if _tracing():
            from crosshair.tracers import NoTracing
            with NoTracing():
                cache.clear()
                cache[tuple(bits)] = r = native(bits)
                return r
        # the witness of a path is the same graph: reuse the result computed for it a moment ago
        return cache.get(tuple(bits)) or native(bits)

    def explain(args):
        bits = list(fixed) + [1 if a else 0 for a in args]
        adj = [[bool(bits[i * n + j]) for j in range(n)] for i in range(n)]
        return f'grammar:\n{grammar_text(adj, n)}cycles={simple_cycles(adj, n)} F2 shape={f2_shape(adj, n)}\nresult={native(bits)!r}'

    body.explain = explain
    body.warm = [tuple([0] * (n * n - len(fixed))), tuple([1] * (n * n - len(fixed)))]
    return body


# ---------------- A': the marking algorithm itself, traced symbolically on model objects ----------------
def make_marking(spec):
    from tatsu.peg import Call, Choice, Rule, Sequence, Token
    from tatsu.peg.choice import Option
    from tatsu.peg.leftrec.pegen import mark_left_recursion
    n = spec['n']
    known = tolerated('C16')

    def build(adj):
        rules = []
        for i in range(n):
            opts = [Sequence(sequence=[Call(name=NAMES[j]), Token(token='x')]) for j in range(n) if adj[i][j]]
            opts.append(Token(token='y'))
            rules.append(Rule(name=NAMES[i], exp=Choice(options=[Option(exp=o) for o in opts])))
        return rules

    def body(args):
        adj = [[(True if args[i * n + j] else False) for j in range(n)] for i in range(n)]
        try:
            rules = build(adj)
            mark_left_recursion(rules)
        except Exception as e:  # noqa: BLE001
            return False, 'exception', repr(e)[:100]
        lrec = [bool(r.is_lrec) for r in rules]
        memo = [bool(r.is_memo) for r in rules]
        cyc = [on_cycle(adj, n, i) for i in range(n)]
        for i in range(n):
            if not cyc[i] and (lrec[i] or not memo[i]):
                return False, 'acyclic-rule-marked', [i]
            if lrec[i] and not cyc[i]:
                return False, 'leader-off-cycle', [i]
        # every cycle needs a rule that carries the runtime guard: the graph restricted to unguarded rules is acyclic
        rest = [[adj[i][j] and not lrec[i] and not lrec[j] for j in range(n)] for i in range(n)]
        if any(on_cycle(rest, n, i) for i in range(n)):
            return False, 'cycle-without-guard', [[int(x) for r in adj for x in r]]
        return True, ('cyclic' if any(cyc) else 'triv:acyclic'), [sum(lrec)]

    body.warm = [tuple([0] * (n * n)), tuple([1] * (n * n)), tuple([1, 0, 0, 0, 1, 0, 0, 0, 1][:n * n])]
    return body


# ---------------- B: left-call edges of one rule body ----------------
KINDS = ['call', 'tok', 'optcall', 'repcall', 'grpalt', 'void', 'lookahead', 'posrep']


def make_edges(spec):
    import tatsu
    from tatsu.exceptions import FailedParse, GrammarError
    from ..grammars import A, AND, C, GRP, OPT, REP, REP1, S, T, VOID
    from ..harness import _tracing
    from ..refpeg import G, render_grammar
    npos = spec['npos']
    indirect = spec['indirect']

    def elem(k, target):
        return [C(target), T('x'), OPT(C(target)), REP(C(target)), GRP(A(C(target), T('x'))), VOID, AND(C(target)), REP1(C(target))][k]

    def native(kinds):
        target = 'b' if indirect else 'a'
        rules = [('a', A(S(*[elem(k, target) for k in kinds]), T('y')))]
        if indirect:
            rules.append(('b', A(S(C('a'), T('x')), T('z'))))
        g = G(rules, nameguard=False, whitespace=None)
        text = render_grammar(rules)
        # outside the statement: a call to a rule that can itself match empty inside a nullable prefix
        if any(g.nullable(('call', nm)) for nm, _ in rules):
            return True, 'triv:excluded-nullable-rule', None
        want = bool(g.leftrec)
        try:
            tatsu.compile('@@left_recursion :: False\n' + text)
            raised = False
        except GrammarError:
            raised = True
        except Exception as e:  # noqa: BLE001
            return False, 'exception', repr(e)[:100]
        if raised != want:
            return False, 'lrec-off-detection', [text, raised, want]
        model = tatsu.compile(text)
        for nm, _ in rules:
            r = model.rulemap[nm]
            if nm not in g.leftrec and (r.is_lrec or not r.is_memo):
                return False, 'acyclic-rule-marked', [text, nm]
        old = sys.getrecursionlimit()
        sys.setrecursionlimit(600)
        try:
            for t in ['y', 'yx', 'yxx', 'x', 'xy', '', 'zx', 'zxx', 'yxxxx']:
                try:
                    model.parse(t, nameguard=False, whitespace='')
                except FailedParse:
                    pass
                except RecursionError:
                    return False, 'unbounded-recursion', [text, t]
                except Exception as e:  # noqa: BLE001
                    return False, 'parse-exception', [text, t, repr(e)[:80]]
        finally:
            sys.setrecursionlimit(old)
        return True, ('leftrec' if want else 'not-leftrec'), [sorted(g.leftrec)]

    cache = {}
    fixedk = spec.get('fixed', [])

    def body(args):
        kinds = list(fixedk) + [int(a) if not _tracing() else _concrete(a) for a in args]
        if _tracing():
            from crosshair.tracers import NoTracing
            with NoTracing():
                cache.clear()
                cache[tuple(kinds)] = r = native(kinds)
                return r
        return cache.get(tuple(kinds)) or native(kinds)

    def _concrete(a):
        # fork on the selector value (class tests on a small range)
        for v in range(len(KINDS)):
            if a == v:
                return v
        return 0

    body.explain = lambda args: repr(native(list(fixedk) + [int(a) for a in args]))
    nfree = npos - len(fixedk)
    body.warm = [tuple([0] * nfree), tuple([1] * nfree), tuple([2, 0, 1, 5][:nfree])]
    return body


def plan(tier, seed):
    obs = [Ob(name='A_marking_n3', factory='vt.props.c16:make_marking', spec={'n': 3}, params=[(f'e{i}', 0, 2) for i in range(9)], budget=600, group='A',
              require_tags=('cyclic',))]
    for hi in range(8):
        fixed = [(hi >> b) & 1 for b in range(3)]
        obs.append(Ob(name=f'C_runtime_n3_row{hi}', factory='vt.props.c16:make_graph', spec={'n': 3, 'fixed': fixed},
                      params=[(f'e{i}', 0, 2) for i in range(6)], budget=600, group='C', require_tags=('cyclic',)))
    for ind in (False, True):
        for k0 in range(len(KINDS)):
            obs.append(Ob(name=f'B_edges_{"indirect" if ind else "direct"}_3_k{k0}', factory='vt.props.c16:make_edges',
                          spec={'npos': 3, 'indirect': ind, 'fixed': [k0]}, params=[(f'k{i}', 0, len(KINDS)) for i in range(2)], budget=600, group='B'))
    if tier != 'quick':
        for hi in range(64):
            fixed = [(hi >> b) & 1 for b in range(6)]
            obs.append(Ob(name=f'C_runtime_n4_p{hi}', factory='vt.props.c16:make_graph', spec={'n': 4, 'fixed': fixed},
                          params=[(f'e{i}', 0, 2) for i in range(10)], budget=3000, group='C'))
        obs.append(Ob(name='A_marking_n4', factory='vt.props.c16:make_marking', spec={'n': 4}, params=[(f'e{i}', 0, 2) for i in range(16)], budget=3000, group='A'))
        for ind in (False, True):
            for k0 in range(len(KINDS)):
                for k1 in range(len(KINDS)):
                    obs.append(Ob(name=f'B_edges_{"indirect" if ind else "direct"}_4_k{k0}{k1}', factory='vt.props.c16:make_edges',
                                  spec={'npos': 4, 'indirect': ind, 'fixed': [k0, k1]}, params=[(f'k{i}', 0, len(KINDS)) for i in range(2)], budget=900, group='B'))
    return {
        'obligations': obs,
        'level': 'other',
        'programs': 512 if tier == 'quick' else 512 + 65536,
        'explanation': 'Rule graphs are chosen by the solver: the adjacency matrix of n rules (edge i->j = option "rj \'x\'") is n*n symbolic booleans. '
                       'A: the real mark_left_recursion runs symbolically on model objects built from them; rules on no cycle must stay memoized and '
                       'unmarked and the graph restricted to unguarded rules must be acyclic. C: for every graph the grammar text is compiled through the '
                       'public API with left recursion off (GrammarError iff an independent reachability check finds a cycle) and on (no RecursionError '
                       'from any start rule on a battery of texts, results equal to the reference seed-growing evaluator). B: one rule body of 3-4 positions '
                       'with symbolic element kinds vs an independent left-call/nullable analysis. In C and B the solver enumerates the selectors and the '
                       'body runs natively per path (all data is concrete once the selectors are fixed).',
        'functions_encoded': ['tatsu.peg.leftrec.pegen:mark_left_recursion/_callable_rule_ids/_is_nullable_safe/_make_first_graph', 'tatsu.peg.leftrec.sccutils:*',
                              'tatsu.peg.base:Grammar._mark_left_recursion/initialize', 'tatsu.contexts.engine:ParserEngine.recursive_call (native per path)'],
        'bounds': 'all 512 graphs on 3 rules (quick); all 65 536 graphs on 4 rules (thorough); rule bodies of 3 (quick) / 4 (thorough) positions over 8 element kinds; '
                  'battery of 8-9 texts over {x,y,z} per graph and start rule; recursion limit 600',
        'outside': 'larger graphs; longer inputs; left recursion hidden behind nullable rules (excluded by the statement)',
        'assumptions': ['refpeg nullable/left-call analysis is the independent definition of "can reach itself at the same input position"'],
    }
