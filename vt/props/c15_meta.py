META = {
    'level': 'translation_validation',
    'text': 'Bounded symbolic translation validation of the bootstrap: the shipped generated parser, the shipped grammar model and the grammar file compiled at run time '
            '(and a regenerated parser) are executed symbolically on seed grammar texts with a symbolic hole at one position per production group; decisions and ASTs must '
            'agree for every code point in the hole; built models compared natively per path. Drift between the grammar file and the checked-in parser is invisible unless '
            'the differing production is exercised.',
    'note': 'Each path costs three to four full parses by TatSu\'s own grammar (several seconds), so holes are 1 code point wide in the quick tier. The seeds are a fixed list; '
            'production coverage is by construction (one seed per production group).',
}
