META = {
    'level': 'other',
    'text': 'Bounded symbolic differential verification of keyword rejection: model == generated parser == reference evaluator on every text up to the bound, for @name rules '
            'in choices/closures/lookaheads with ignorecase on/off, plus a reference-free comparison with the undecorated grammar. The check runs after the rule body and '
            'before memoization and actions; its interaction with case folding and memoized results is input dependent.',
    'note': 'Trusted: vt/refpeg.py keyword rule; CrossHair/z3 models validated per path natively. Lengths >= 4 restrict code points to a stated 10-character alphabet.',
}
