META = {
    'level': 'other',
    'text': 'Bounded symbolic differential verification of left-recursive parsing: real model == generated parser == reference seed-growing '
            'evaluator for every text up to the bound, termination on every path, plus the closed-form left fold for symbolic operator chains. '
            'Leader choice, memo suppression and seed growth interact per cycle shape and input; the solver covers all inputs of each length.',
    'note': 'Trusted: vt/refpeg.py seed growing (Warth et al.) as the meaning of the statement; CrossHair/z3 models validated per path natively. '
            'Thorough lengths 5..6 restrict code points to the operator alphabet plus one other character (stated in the evidence).',
}
