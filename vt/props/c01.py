"""C01 — grammar models parse exactly as the documented PEG semantics prescribe."""
from __future__ import annotations

from .. import grammars
from ..runner import Ob

UNI = 0x110000
FUNCS = ['tatsu.peg.base:Grammar.parse/_do_parse/new_parse_config/newctx/optimized', 'tatsu.contexts.engine:ParserEngine.parse/bound/call/rule_call/func_call/recursive_call/semantics_call/constant',
         'tatsu.contexts.context:ParseContext.token/pattern/option/optional/closure/positive_closure/repeat/isolate/join/gather/skip_to/if_/ifnot_/eofcheck/void/fail/dot',
         'tatsu.contexts.core:ParserCore.next_token/memokey/memo/memoize/cut/statescope', 'tatsu.contexts.state:ParseState/ParseStateStack', 'tatsu.contexts.cst:cstadd/cstmerge/cstfinal/closedlist',
         'tatsu.contexts.ast:AST._set/_setlist/_define', 'tatsu.peg.syntax|choice|closure|named|basic|pattern:*._parse', 'tatsu.input.textlines:TextLines/TextLinesCursor.match/matchre/next_token']

BUDGET = {0: 40, 1: 40, 2: 90, 3: 300, 4: 1500, 5: 3600}

# rule includes, based rules and @override rules, "taken as their documented expansions": the real grammar text vs the expansion given to the reference
from ..grammars import A, C, INCL, N, OPT, S, T   # noqa: E402
EXPANSIONS = [
    ('based_rule', "start: d | b ;\nb: x='a' ;\nd < b: y='b' ;\n",
     [('start', A(C('d'), C('b'))), ('b', N('x', T('a'))), ('d', S(INCL('b'), N('y', T('b'))))]),
    ('based_rule_plain', "start: d ['c'] ;\nb: 'a' ['b'] ;\nd < b: 'c' ;\n",
     [('start', S(C('d'), OPT(T('c')))), ('b', S(T('a'), OPT(T('b')))), ('d', S(INCL('b'), T('c')))]),
    ('override_rule', "start: r ['a'] ;\nr: 'a' ;\n@override\nr: 'b' | 'a' 'b' ;\n",
     [('start', S(C('r'), OPT(T('a')))), ('r', A(T('b'), S(T('a'), T('b'))))]),
]


def obs_for(name, rules, lengths, start=None, budget_scale=1.0, group=''):
    out = []
    for n in lengths:
        spec = {'grammar': name, 'rules': rules, 'n': n}
        if start:
            spec['start'] = start
        out.append(Ob(name=f'{name}_L{n}', factory='vt.pegbody:make_peg', spec=spec, params=[(f'c{i}', 0, UNI) for i in range(n)],
                      budget=BUDGET[n] * budget_scale, group=group or name))
    return out


def plan(tier, seed):
    obs = []
    if tier == 'quick':
        for name, rules in grammars.CORE:
            obs += obs_for(name, rules, range(0, 4))
        for name, rules, start in grammars.START_VARIANTS:
            obs += obs_for(name, rules, range(0, 4), start=start)
        for name, gtext, ref_rules in EXPANSIONS:
            for n in range(0, 4):
                obs.append(Ob(name=f'{name}_L{n}', factory='vt.pegbody:make_peg', spec={'grammar': name, 'gtext': gtext, 'ref_rules': ref_rules, 'n': n},
                              params=[(f'c{i}', 0, UNI) for i in range(n)], budget=BUDGET[n], group=name))
        # the slice is chosen by VERIF_SEED among 20 slices whose agreement with the reference was validated natively (tools/calib/enumcheck.py)
        for name, rules in grammars.enumerated(seed % 20, 8):
            obs += obs_for(name, rules, range(0, 3))
    else:
        for name, rules in grammars.CORE:
            obs += obs_for(name, rules, range(0, 5))
        for name, rules, start in grammars.START_VARIANTS:
            obs += obs_for(name, rules, range(0, 5), start=start)
        for name, gtext, ref_rules in EXPANSIONS:
            for n in range(0, 5):
                obs.append(Ob(name=f'{name}_L{n}', factory='vt.pegbody:make_peg', spec={'grammar': name, 'gtext': gtext, 'ref_rules': ref_rules, 'n': n},
                              params=[(f'c{i}', 0, UNI) for i in range(n)], budget=BUDGET[n], group=name))
        for k in range(8):
            for name, rules in grammars.enumerated((seed + k) % 20, 8):
                obs += obs_for(name, rules, range(0, 4))
    ngr = len({o.spec['grammar'] for o in obs})
    return {
        'obligations': obs,
        'level': 'other',
        'programs': ngr,
        'explanation': 'For each grammar of the family and each text length n: the real engine (tatsu.compile + Grammar.parse path) and '
                       'an independent reference evaluator of the documented PEG semantics (vt/refpeg.py) are both executed symbolically by '
                       'CrossHair on a text of n symbolic code points (all of Unicode); the postcondition is agreement on accept/reject, '
                       'end position and normalised AST. An exhausted obligation is a verdict for every text of that length. '
                       'Grammars are enumerated, not symbolic.',
        'functions_encoded': FUNCS,
        'bounds': f'{ngr} grammars (hand-reviewed core of {len(grammars.CORE)} + start= variants + seeded slice of the skeleton enumeration); '
                  f'text length 0..{3 if tier == "quick" else 4} over all Unicode code points; default whitespace/nameguard',
        'outside': 'longer texts; grammars outside the skeleton bound; valueless rules as sequence elements, closures over nullable bodies and '
                   'names inside a rule body that is a bare optional/closure (documented ambiguity, DESIGN §4.1); patterns with >1 group',
        'assumptions': ['vt/refpeg.py is a faithful reading of docs/syntax.rst and docs/ast.rst (validated against the documentation examples and by '
                        'native differential sweeps, DESIGN §4.1)', 'CrossHair/z3 string, regex and container models (each path re-run natively on a witness)'],
    }
