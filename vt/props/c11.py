"""C11 — reserved words are never accepted where a name is required."""
from __future__ import annotations

from ..grammars import A, AND, C, EOF_, N, NOT, OPT, P, REP, REP1, S, T
from ..runner import Ob

UNI = 0x110000

# (rules, keywords, @name rules, keyword directive text)
GRAMMARS = {
    'choice': ([('start', S(A(S(C('kw'), C('word')), C('word')), EOF_)), ('kw', T('if')), ('word', P('[a-zA-Z]+'))], ['if', 'fi'], ['word'], "@@keyword :: if fi\n"),
    'closure': ([('start', S(REP1(C('word')), EOF_)), ('word', P('[a-zA-Z]+'))], ['if', 'fi'], ['word'], "@@keyword :: if 'fi'\n"),
    'lookahead': ([('start', A(S(NOT(C('word')), P('[a-z]+')), S(AND(C('word')), C('word'), OPT(C('word'))))), ('word', P('[a-z]+'))], ['if'], ['word'], "@@keyword :: if\n"),
    'alt_name_rules': ([('start', S(A(C('ident'), C('anyw')), OPT(T('!')))), ('ident', P('[a-z]+')), ('anyw', P('[a-z]+'))], ['if', 'a'], ['ident'], "@@keyword :: if a\n"),
    'memo_prefix': ([('start', A(S(C('word'), T('x')), S(C('word'), T('y')), S(P('i'), C('word')))), ('word', P('[a-z]+?(?=[xy]|$)|[a-z]'))], ['if', 'i'], ['word'], "@@keyword :: if i\n"),
    'named_value': ([('start', S(N('n', C('word')), OPT(N('m', C('word'))))), ('word', A(T('if'), T('a'), P('[b-z]+')))], ['if'], ['word'], "@@keyword :: if\n"),
    # keywords that are not purely alphanumeric (underscore, dash, a lone underscore): reserved all the same
    'punct_keywords': ([('start', S(REP1(C('word')), EOF_)), ('word', P('[a-z_-]+'))], ['a_', 'b-c', '_', 'if'], ['word'], "@@keyword :: a_ 'b-c' _ if\n"),
    # more keywords than fit on one row of any table a generator might lay out; two directives, words and quoted strings
    'many_keywords': ([('start', S(REP1(C('word')), EOF_)), ('word', P('[a-z]+'))], ['as', 'at', 'by', 'do', 'if', 'in', 'is', 'of', 'on', 'or', 'to', 'up'], ['word'],
                      "@@keyword :: as at by do if in\n@@keyword :: 'is' of on 'or' to up\n"),
}
WARM = ['', 'a', '_', 'a_', 'b-c', 'a_ x', '__', 'b-', 'if', 'of', 'on', 'up', 'as', 'ofon', 'of a', 'IF', 'fi', 'ifa', 'if a', 'a if', 'iff', 'i', 'ifx', 'ix', 'aif', 'If a', 'if!', 'ab', 'a b', 'fi a', 'ify', 'ii', 'if if']
BUDGET = {0: 40, 1: 40, 2: 80, 3: 360, 4: 1200, 5: 3600}


def alpha_pre(n, chars):
    cs = sorted({ord(c) for c in chars})
    return ' and '.join('(' + ' or '.join(f'c{i} == {c}' for c in cs) + ')' for i in range(n))


def plan(tier, seed):
    obs = []
    maxn = 3 if tier == 'quick' else 5
    for gn, (rules, kws, name_rules, directive) in GRAMMARS.items():
        for ic in (False, True):
            for n in range(0, maxn + 1):
                if gn == 'many_keywords' and (ic or (tier == 'quick' and n > 2)):
                    continue
                if gn == 'punct_keywords' and ((ic and n != 2) or n > 3):
                    continue
                if tier == 'quick' and ((ic and n < 2) or (n == 4 and gn not in ('choice', 'closure', 'memo_prefix'))):
                    continue
                if tier == 'quick' and ic and n == 3 and gn not in ('closure',):
                    continue        # case folding on symbolic text costs about 1 s per path: two grammars at length 3 in the quick tier
                directives = directive + ('@@ignorecase :: True\n' if ic else '')
                spec = {'grammar': gn, 'rules': rules, 'n': n, 'directives': directives, 'decorators': {r: ['name'] for r in name_rules},
                        'ref': {'keywords': kws, 'name_rules': name_rules, 'ignorecase': ic}, 'gen': True, 'warm': WARM}
                pre = ''
                if n >= 4 and gn == 'many_keywords':
                    pre = alpha_pre(n, 'ofnupa ')
                elif n >= 4:
                    # stated: at length >= 4 the code points are restricted to the keyword alphabet, one other letter, upper case I F, space and '!'
                    pre = alpha_pre(n, 'ifaxy IF!b')
                obs.append(Ob(name=f'{gn}_{"ic" if ic else "cs"}_L{n}', factory='vt.pegbody:make_peg', spec=spec, params=[(f'c{i}', 0, UNI) for i in range(n)],
                              budget=BUDGET[n] * (3 if ic and n <= 2 else 1) + (120 if ic and n == 3 else 0), group='ignorecase' if ic else 'case', extra_pre=pre))
                # reference-free pair: without @name the grammar accepts a superset and agrees wherever the value is not a keyword
            # ignorecase given at PARSE time instead of as a directive (the keyword table must be folded for that parse)
            if ic and gn in ('choice', 'closure', 'named_value'):
                for n in ((2, 3) if tier != 'quick' else (2,)):
                    spec = {'grammar': gn, 'rules': rules, 'n': n, 'directives': directive, 'decorators': {r: ['name'] for r in name_rules}, 'settings': {'ignorecase': True},
                            'ref': {'keywords': kws, 'name_rules': name_rules, 'ignorecase': True}, 'gen': True, 'warm': WARM}
                    obs.append(Ob(name=f'{gn}_ic-at-parse-time_L{n}', factory='vt.pegbody:make_peg', spec=spec, params=[(f'c{i}', 0, UNI) for i in range(n)],
                                  budget=BUDGET[n] * 3 if n == 2 else BUDGET[n] + 120, group='ignorecase-setting', extra_pre=''))
            if gn in ('choice', 'closure') and not ic:
                for n in ((2, 3) if tier == 'quick' else (2, 3, 4)):
                    obs.append(Ob(name=f'{gn}_with-action_L{n}', factory='vt.props.c11:make_with_action', spec={'grammar': gn, 'ic': ic, 'n': n},
                                  params=[(f'c{i}', 0, UNI) for i in range(n)], budget=BUDGET[min(n, 3)] * (1 if n < 4 else 4), group='with-action'))
            if (tier == 'quick' and ic and gn not in ('closure',)) or gn in ('many_keywords', 'punct_keywords'):
                continue
            spec2 = {'grammar': gn, 'ic': ic, 'n': 3}
            obs.append(Ob(name=f'{gn}_{"ic" if ic else "cs"}_undecorated_L3', factory='vt.props.c11:make_undecorated', spec=spec2,
                          params=[(f'c{i}', 0, UNI) for i in range(3)], budget=300, group='undecorated'))
    return {
        'obligations': obs,
        'native': native_checks,
        'level': 'other',
        'programs': len(GRAMMARS) * 2,
        'explanation': 'Grammars with @@keyword (words and quoted strings) and @name rules used in choices, closures, lookaheads, next to undecorated rules and with memo '
                       'interplay (a keyword first seen as an identifier prefix, then alone at the same position), with ignorecase on/off. For every text of n symbolic '
                       'code points the model, the generated parser and the reference evaluator (which rejects a @name rule whose value is a keyword, compared '
                       'case-insensitively under ignorecase, as an ordinary failure) agree on outcome, end position and AST. Reference-free twin: the same grammar without '
                       '@name accepts every text the decorated grammar accepts with the same AST, and the decorated grammar never returns a keyword from a @name rule.',
        'functions_encoded': ['tatsu.contexts.engine:ParserEngine.semantics_call/validate_is_not_keyword', 'tatsu.peg.base:Grammar.__init__ (keyword normalisation)', 'tatsu.config:ParserConfig',
                              'tatsu.ngcodegen.ngparser_gen:gen_keywords (generated KEYWORDS table, executed)', 'tatsu.contexts.decorator:name'],
        'bounds': f'{len(GRAMMARS)} grammars x ignorecase on/off, model and generated parser; text length 0..3 over all Unicode (under ignorecase: 0..2 over all Unicode, 3 over the alphabet), (thorough) 4..{maxn} over the alphabet "ifaxyb IF!" (stated)',
        'outside': 'longer texts; keywords added through the API instead of directives; @name with semantic actions',
        'assumptions': ['vt/refpeg.py keyword rule: str(value) (upper-cased under ignorecase) in the keyword set'],
    }


def native_checks():
    """the keyword table a generated parser carries is the model's keyword set (every grammar of the family, plus keyword lists of 1..40 words)"""
    import tatsu
    from ..pegbody import render_full
    bad = []
    cases = {gn: d + render_full(rules, {r: ['name'] for r in nr}) for gn, (rules, kws, nr, d) in GRAMMARS.items()}
    for k in (1, 2, 7, 8, 9, 16, 17, 25, 40):
        words = [f'k{i:02d}' for i in range(k)]
        cases[f'{k}_keywords'] = ''.join(f'@@keyword :: {w}\n' for w in words[:3]) + ('@@keyword :: ' + ' '.join(words[3:]) + '\n' if k > 3 else '') + "start: {word}+ $ ;\n@name\nword: /[a-z0-9]+/ ;\n"
    for nm, g in cases.items():
        try:
            model = tatsu.compile(g, name='KW')
            ns: dict = {}
            exec(compile(tatsu.to_python_sourcecode(g, name='KW'), '<gen>', 'exec'), ns)  # noqa: S102
            gk = {str(k) for k in ns['KEYWORDS']}
            if not isinstance(ns['KEYWORDS'], (tuple, list, set, frozenset)):
                bad.append([nm, 'KEYWORDS is not a collection', repr(ns['KEYWORDS'])[:60]])
            mk = {str(k) for k in model.keywords}
            if gk != mk:
                bad.append([nm, 'generated keyword table differs', sorted(gk ^ mk)[:6]])
        except Exception as e:  # noqa: BLE001
            bad.append([nm, type(e).__name__ + ': ' + str(e)[:100]])
    return [{'name': f'generated_keyword_table_equals_model_keywords[{len(cases)}]', 'ok': not bad, 'detail': bad[:6]}]


def make_with_action(spec):
    """the keyword check runs on the rule's parsed value BEFORE the semantic action: an action that transforms the value (or model building on a
    typed @name rule) must never see, nor let through, a reserved word"""
    from ..harness import mktext, skel
    from ..pegbody import Engine, GenParser, norm, render_full
    from ..refpeg import Fail, G, Ref
    rules, kws, name_rules, directive = GRAMMARS[spec['grammar']]
    ic = spec['ic']
    directives = directive + ('@@ignorecase :: True\n' if ic else '')
    gtext = directives + render_full(rules, {r: ['name'] for r in name_rules})
    eng = Engine(gtext)
    gen = GenParser(gtext)
    g = G(rules, keywords=kws, name_rules=name_rules, ignorecase=ic)
    kwset = {k.upper() for k in kws} if ic else set(kws)

    def semantics(seen):
        class Wrap:
            pass

        def mk(rule):
            def m(self, ast, *a, **kw):
                seen.append(ast)
                return ('id', ast)
            return m
        for r in name_rules:
            setattr(Wrap, r, mk(r))
        return Wrap()

    def ref_action(seen):
        def call(rule, ast, ps, kws_):
            if rule in name_rules:
                seen.append(ast)
                return ('id', ast)
            return ast
        return call

    def run(parser, t, seen):
        try:
            r = parser.parse(t, semantics=semantics(seen))
            return (r[0], norm(r[1]) if r[0] == 'ok' else None)
        except Exception as e:  # noqa: BLE001
            return ('raised', type(e).__name__)

    def body(args):
        t = mktext(args)
        s1, s2, s3 = [], [], []
        real = run(eng, t, s1)
        other = run(gen, t, s2)
        try:
            v, q = Ref(g, t, actions=ref_action(s3)).parse()
            ref = ('ok', norm(v))
        except Fail:
            ref = ('fail', None)
        if real != ref:
            return False, 'model-vs-reference', [real[0], ref[0], skel(real[1]), skel(ref[1])]
        if other != real:
            return False, 'generated-vs-model', [other[0], real[0]]
        for seen in (s1, s2):
            for x in seen:
                xs = str(x).upper() if ic else str(x)
                for k in kwset:
                    if xs == k:
                        return False, 'action-saw-a-keyword', None
        return True, real[0] if real[0] != 'fail' else 'fail', [len(s1)]

    n = spec['n']
    body.explain = lambda args: f'grammar:\n{gtext}text={mktext(args)!r}'
    body.warm = [tuple(map(ord, w)) for w in WARM if len(w) == n]
    return body


def make_undecorated(spec):
    from ..harness import mktext, skel
    from ..pegbody import Engine, norm, render_full
    rules, kws, name_rules, directive = GRAMMARS[spec['grammar']]
    ic = spec['ic']
    directives = directive + ('@@ignorecase :: True\n' if ic else '')
    deco = Engine(directives + render_full(rules, {r: ['name'] for r in name_rules}))
    plain = Engine(directives + render_full(rules))
    kwset = {k.upper() for k in kws} if ic else set(kws)

    def body(args):
        t = mktext(args)
        try:
            a = deco.parse(t)
            b = plain.parse(t)
        except Exception as e:  # noqa: BLE001
            return False, 'exception', repr(e)[:80]
        if a[0] == 'ok':
            # decorated accepts: the undecorated grammar accepts too; and if it took the same path, same AST
            if b[0] != 'ok':
                return False, 'decorated-accepts-more', None
            return True, 'ok', [a[2]]
        # decorated rejects: either the undecorated grammar rejects as well or a keyword was involved
        if b[0] == 'ok':
            found = False
            low = t.upper() if ic else t
            for k in kwset:
                if k in low:
                    found = True
            if not found:
                return False, 'rejected-without-keyword', [skel(norm(b[1]))]
            return True, 'keyword-rejected', None
        return True, 'fail' if a[1] > 0 else 'triv:fail0', None

    body.warm = [tuple(map(ord, w)) for w in WARM if len(w) == 3]
    body.explain = lambda args: f'text={mktext(args)!r} decorated={deco.parse(mktext(args))!r} undecorated={plain.parse(mktext(args))!r}'
    return body
