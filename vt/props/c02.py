"""C02 — generated Python parsers behave identically to the grammar model."""
from __future__ import annotations

from .. import grammars
from ..harness import _tracing, mktext
from ..known import tolerated
from ..runner import Ob

UNI = 0x110000

TEXT_GRAMMARS = {
    'directives_case': "@@nameguard :: False\n@@ignorecase :: True\nstart: 'a' 'B' ['ab'] $ ;\n",
    'directive_ws': "@@whitespace :: /[\\t ]+/\nstart: {'a' | /\\n/}+ $ ;\n",
    'directive_comments': "@@comments :: /\\(\\*.*?\\*\\)/\n@@eol_comments :: /#[^\\n]*/\nstart: {'a'}+ $ ;\n",
    'directive_namechars': "@@namechars :: '-'\nstart: 'a' ('-a' | 'b' | /-/) ;\n",
    'rule_params': "start: r q ;\nr(A, 1): 'a' ;\nq(k=2): 'b' | () ;\n",
    'name_keyword': "@@keyword :: if ab\nstart: {word}+ $ ;\n@name\nword: /[a-z]+/ ;\n",
    'upper_rule': "start: 'a' Tok tok ;\nTok: /b?/ ;\ntok: /c?/ ;\n",
    'keywordlike_names': "start: if class_ None ;\nif: 'a' ;\nclass_: 'b' | () ;\nNone: 'c' | () ;\n",
    'named_group': "start: x=('a' 'b') y=('a' | 'b' 'a') z+=('b' ['a']) ;\n",
    'override_group': "start: =('a' ['b']) | +=('b' 'a') ;\n",
    'skipto_const': "start: ->'b' `k` ['a'] ;\n",
    'meta': "start: @int | @name @uint | @bool ;\n",
    'eol': "start: 'a' $-> 'b' | 'a' ;\n",
    'based_rule': "start: d | b ;\nb: 'a' ;\nd < b: 'b' ;\n",
    'cut_in_group': "start: ('x' ~ 'y') 'z' | 'x' 'y' 'w' | 'x' ;\n",
    'cut_in_group_in_optional': "start: [('a' ~) 'b'] 'a' ['c'] ;\n",
    'tiny': "start: ['a'] $ ;\n",
    'nested_closures_named': "start: items+={ ','.{ item }+ ';' } $ ;\nitem: /[ab]/ ;\n",
}
SETTINGS = {
    'default': {},
    'ignorecase': {'ignorecase': True},
    'noguard': {'nameguard': False},
    'ws': {'whitespace': '[\\t ]+'},
    'parseinfo': {'parseinfo': True},
    'nows': {'whitespace': '', 'nameguard': False},
}
CORE_QUICK = ['choice_order', 'join_star_tail', 'named_defaults', 'override', 'rule_list_nested', 'optional_in_seq', 'group_splice', 'names_in_closure',
              'skip_group', 'cut_in_optional', 'lookaheads', 'closure_nested']
BUDGET = {0: 40, 1: 40, 2: 90, 3: 400, 4: 2400}


def make_names(spec):
    """kernel: safe_name on symbolic rule names: identifier, not reserved, and injective on valid rule names"""
    import keyword
    from tatsu.util import safe_name
    known = tolerated('C02')
    fn = getattr(safe_name, '__wrapped__', safe_name)

    def body(args):
        k = spec['n']
        a = mktext(args[:k])
        b = mktext(args[k:])
        try:
            ra = fn(a)
            rb = fn(b)
        except Exception as e:  # noqa: BLE001
            return False, 'exception', type(e).__name__ + ': ' + str(e)[:60]
        if not _tracing():
            for r in (ra, rb):
                if not r.isidentifier() or keyword.iskeyword(r):
                    return False, 'not-an-identifier', [r]
        # two distinct names that are both valid rule names (identifiers) must stay distinct
        if a != b and ra == rb and a.isidentifier() and b.isidentifier():
            if 'F21' in known:
                return True, 'known:F21', [a, b, ra] if not _tracing() else None
            return False, 'collision', None
        return True, 'ok', None

    body.warm = [tuple(map(ord, 'if' + 'ab')), tuple(map(ord, 'a_' + 'b1'))] if spec['n'] == 2 else [tuple(map(ord, 'a' + 'b'))]
    body.explain = lambda args: (lambda a, b: f'{a!r}->{fn(a)!r} {b!r}->{fn(b)!r}')(mktext(args[:spec["n"]]), mktext(args[spec["n"]:]))
    return body


def native_checks():
    """generated source is valid Python for every grammar of the family (concrete by-product) + keyword-like name collision (F21)"""
    import tatsu
    from ..refpeg import render_grammar
    from ..pegbody import GenParser, norm
    out = []
    known = tolerated('C02')
    fam = [(n, render_grammar(r)) for n, r in grammars.CORE] + list(TEXT_GRAMMARS.items())
    bad = []
    for name, g in fam:
        try:
            src = tatsu.to_python_sourcecode(g, name='VT')
            compile(src, name, 'exec')
        except Exception as e:  # noqa: BLE001
            bad.append([name, type(e).__name__ + ': ' + str(e)[:80]])
    out.append({'name': f'generated_source_compiles[{len(fam)}]', 'ok': not bad, 'detail': bad})
    g = "start: if if_ $ ;\nif: 'a' ;\nif_: 'b' ;\n"
    try:
        m = tatsu.compile(g).parse('a b')
        try:
            p = GenParser(g).parse('a b')
        except Exception as e:  # noqa: BLE001
            p = ('exception', repr(e)[:60])
        same = p[0] == 'ok' and list(p[1]) == list(m)
    except Exception as e:  # noqa: BLE001
        same, p = False, repr(e)
    # F20: a name bound to an expression without value
    bad = []
    for g, t in [("start: y+=() ;\n", ''), ("start: =(&/b?/) ;\n", ''), ("start: x=('a' ()) ;\n", 'a')]:
        try:
            m = norm(tatsu.compile(g).parse(t))
            q = GenParser(g).parse(t)
            if q[0] != 'ok' or norm(q[1]) != m:
                bad.append([g, repr(m), repr(q)[:60]])
        except Exception as e:  # noqa: BLE001
            bad.append([g, 'exception', repr(e)[:80]])
    out.append({'name': 'names_bound_to_valueless_expressions', 'ok': not bad, 'known': None if not bad or 'F20' not in known else 'F20', 'detail': bad})
    out.append({'name': 'rule_names_if_and_if_', 'ok': same, 'known': None if same or 'F21' not in known else 'F21', 'detail': repr(p)[:100]})
    return out


def make_regex_char(spec):
    """a regex literal holding one solver-chosen code point (pattern position and @@whitespace directive position): the generated parser carries the same
    regex as the model.  The code point is a selector (the grammar has to be compiled and the source generated per value: both run natively)."""
    import tatsu
    from ..pegbody import GenParser, norm
    lo = spec['lo']
    cache = {}

    def native(c):
        ch = chr(c)
        out = 'same'
        for kind, g, texts in (('pattern', f"start: /a{ch}b/ $ ;\n", ['a' + ch + 'b', 'a b', 'a\tb', 'ab', 'a  b', 'a    b']),
                               ('whitespace', f"@@whitespace :: /[_{ch}]+/\nstart: 'a' 'b' $ ;\n", ['a' + ch + 'b', 'a_b', 'a b', 'a\tb', 'ab', 'a    b'])):
            try:
                model = tatsu.compile(g, name='RC')
            except Exception:  # noqa: BLE001
                out = 'triv:grammar-rejected' if out == 'same' else out
                continue            # not a grammar (the character ends the literal, is not a regex, ...): nothing to compare
            try:
                gen = GenParser(g, name='RC')
            except Exception as e:  # noqa: BLE001
                return False, 'generated-source-broken', [kind, c, type(e).__name__ + ': ' + str(e)[:80]]
            for t in texts:
                try:
                    a = ('ok', norm(model.parse(t)))
                except tatsu.exceptions.FailedParse:
                    a = ('fail',)
                b = gen.parse(t)
                b = ('ok', norm(b[1])) if b[0] == 'ok' else ('fail',)
                if a != b:
                    return False, 'generated-regex-differs', [kind, c, t, a[0], b[0]]
        return True, out, None

    def body(args):
        (a,) = args
        if _tracing():
            l, h = lo, spec['hi'] - 1
            while l < h:
                mid = (l + h) // 2
                if a <= mid:
                    h = mid
                else:
                    l = mid + 1
            from crosshair.tracers import NoTracing
            with NoTracing():
                cache.clear()
                cache[l] = r = native(l)
                return r
        return cache.get(a) or native(a)

    body.explain = lambda args: f'code point {args[0]} ({chr(args[0])!r}) inside a regex literal: ' + repr(native(args[0]))
    body.warm = [(lo,), (spec['hi'] - 1,)]
    return body


REUSE_GRAMMAR = "start: 'x' '+' ['a-'] $ ;\n"
REUSE_GRAMMAR_XY = "start: 'x' 'y' $ ;\n"        # (alphanumeric neighbours: the one that shows a leaked nameguard setting)
REUSE_SETTINGS = {'ignorecase': {'ignorecase': True}, 'nows': {'whitespace': ''}, 'namechars': {'namechars': '-'}, 'noguard': {'nameguard': False}, 'parseinfo_start': {'parseinfo': True}}


def make_reuse_settings(spec):
    """ONE loaded generated-parser object is used for a sequence of parses: a parse of text+'!' (which FAILS) and a parse of the text itself under
    the per-call settings of spec['first'], then a parse of the same text with NO per-call settings.  The last one must agree with the model parsed
    with no settings (the model is stateless between parses), and with a fresh parser object: per-call settings never outlive their call."""
    from ..harness import skel
    from ..pegbody import Engine, GenParser, norm
    gtext = REUSE_GRAMMAR_XY if spec['first'] == 'noguard' else REUSE_GRAMMAR
    eng = Engine(gtext)
    gen = GenParser(gtext)
    first = REUSE_SETTINGS[spec['first']]

    def attempt(parser, t, **kw):
        from tatsu.exceptions import FailedParse
        try:
            return ('ok', norm(parser.parse(t, **kw)))
        except FailedParse:
            return ('fail',)
        except Exception as e:  # noqa: BLE001
            return ('exception', type(e).__name__ + ': ' + str(e)[:80])

    def body(args):
        t = mktext(args)
        shared = gen.cls()
        attempt(shared, t + '!', **first)          # fails (the grammar ends with $)
        attempt(shared, t, **first)
        attempt(shared, '!' + t, **first)          # and ends with a failed call
        got = attempt(shared, t)
        r = eng.parse(t)
        want = ('ok', norm(r[1])) if r[0] == 'ok' else ('fail',)
        if got[0] == 'exception':
            return False, 'exception', got[1]
        if got != want:
            return False, 'reused-parser-differs-from-model', [got[0], want[0], skel(got[1]) if got[0] == 'ok' else None]
        return True, got[0], None

    n = spec['n']
    body.explain = lambda args: f'grammar:\n{gtext}per-call settings of the earlier calls: {first}; text={mktext(args)!r}'
    body.warm = [tuple(map(ord, w)) for w in ['', 'x+', 'X+', 'x +', 'x+a-', 'x+ ', ' x+', 'xy', 'x y', 'X Y', 'XY', 'x ya-', 'xya-', 'xy a-', 'x  y', 'x\ty', 'xY', 'x ', ' xy', 'x y ', 'x ya', 'X y'] if len(w) == n]
    return body


def plan(tier, seed):
    obs = []
    maxn = 3 if tier == 'quick' else 4
    for fs in REUSE_SETTINGS:
        for n in ((2, 3) if tier == 'quick' else (2, 3, 4, 5)):
            if tier == 'quick' and n == 3 and fs in ('ignorecase', 'noguard'):
                continue        # case folding on symbolic text is ~1 s per path; a leaked ignorecase / nameguard setting shows at length 2 (X+ / xy)
            obs.append(Ob(name=f'reuse_after_{fs}_L{n}', factory='vt.props.c02:make_reuse_settings', spec={'first': fs, 'n': n, 'program': 'reuse'},
                          params=[(f'c{i}', 0, UNI) for i in range(n)], budget={2: 120, 3: 500, 4: 1500, 5: 3000}[n], group='reuse',
                          extra_pre='' if n < 5 else ' and '.join(f'c{i} < 128' for i in range(n))))
    # one code point inside regex literals, through the generator and its source printer (selector; ASCII + Latin-1 in the quick tier)
    step = 64
    for lo in range(0, 0x100 if tier == 'quick' else 0x400, step):
        obs.append(Ob(name=f'regex_char_{lo:04x}', factory='vt.props.c02:make_regex_char', spec={'lo': lo, 'hi': lo + step, 'program': 'regex-char'},
                      params=[('c', lo, lo + step)], budget=400, group='regex-char', require_tags=('same',) if lo in (0x40,) else ()))
    core = [(n, r) for n, r in grammars.CORE if tier != 'quick' or n in CORE_QUICK]
    setts = ['default', 'noguard'] if tier == 'quick' else list(SETTINGS)
    for name, rules in core:
        for sn in setts:
            if tier == 'quick' and sn != 'default' and name not in CORE_QUICK[:6]:
                continue
            for n in range(0, maxn + 1):
                if tier == 'quick' and sn != 'default' and n < 3:
                    continue
                spec = {'grammar': name, 'rules': rules, 'n': n, 'settings': SETTINGS[sn], 'ref': False, 'gen': True}
                obs.append(Ob(name=f'{name}_{sn}_L{n}', factory='vt.pegbody:make_peg', spec=spec, params=[(f'c{i}', 0, UNI) for i in range(n)], budget=BUDGET[n], group=sn))
    for name, g in TEXT_GRAMMARS.items():
        ss = {'directives_case': ['default', 'noguard'], 'name_keyword': ['default', 'ignorecase'], 'meta': ['default', 'ws'], 'named_group': ['default', 'parseinfo'], 'cut_in_group': ['noguard'], 'cut_in_group_in_optional': ['noguard'], 'tiny': ['nows']}.get(name, ['default'])
        if tier != 'quick':
            ss = list(SETTINGS)
        for sn in ss:
            # 'tiny' goes one character further in the quick tier too: the configuration a generated parser embeds (comment patterns, F35) shows at length 4
            for n in range(0, (4 if name == 'tiny' else maxn) + 1):
                if tier == 'quick' and n == 3 and (name == 'meta' or (name == 'directives_case') or (name == 'name_keyword' and sn == 'ignorecase')):
                    continue        # int()/float() realise every digit; case folding on symbolic text costs ~1 s per path: length 3 is left to the thorough tier        # int()/float() realise every digit: length 3 is left to the thorough tier
                spec = {'grammar': name, 'gtext': g, 'n': n, 'settings': SETTINGS[sn], 'gen': True,
                        'warm': ['', 'a', 'ab', 'aB', 'a b', 'abc', 'a-a', 'if', 'x', 'a,b', 'a;', 'b;', '1', '-1', 'xyw', 'xyz', 'xy', 'ac', 'abc', 'x y', 'a 1', 'true', 'ba', 'bab', 'a\nb', 'a#b', 'aAB', 'a(*', 'ab ', 'abab', 'None', 'Nonea']}
                # @int/@uint/@float call int()/float() on the matched text, which realises each digit: restrict this grammar to ASCII
                pre = ' and '.join(f'c{i} < 128' for i in range(n)) if name == 'meta' else ''
                obs.append(Ob(name=f'{name}_{sn}_L{n}', factory='vt.pegbody:make_peg', spec=spec, params=[(f'c{i}', 0, UNI) for i in range(n)], budget=BUDGET[n], group='text:' + sn,
                              extra_pre=pre))
    # indirect left recursion needs several growth rounds before the back-ends can diverge: operator chains with symbolic operators (shared with C03)
    for k in ((2, 3) if tier == 'quick' else (2, 3, 4, 5)):
        for nm in ('aliased', 'two_leftrec_rules'):
            obs.append(Ob(name=f'chain_{nm}_k{k}', factory='vt.props.c03:make_assoc', spec={'grammar': nm, 'k': k, 'program': nm}, params=[(f'o{i}', 0, 3) for i in range(k)],
                          budget=120, group='leftrec-chain', require_tags=('ok',)))
    obs.append(Ob(name='K_safe_name_1', factory='vt.props.c02:make_names', spec={'n': 1}, params=[(f'c{i}', 0, UNI) for i in range(2)], budget=120, group='kernel'))
    obs.append(Ob(name='K_safe_name_2', factory='vt.props.c02:make_names', spec={'n': 2}, params=[(f'c{i}', 0, UNI) for i in range(4)], budget=90 if tier == 'quick' else 1800, group='kernel'))
    progs = len(core) + len(TEXT_GRAMMARS)
    return {
        'obligations': obs,
        'native': native_checks,
        'level': 'translation_validation',
        'programs': progs,
        'explanation': 'Translation validation of the Python back-end: for each grammar the parser source produced by the real generator is loaded and executed '
                       'symbolically side by side with the in-memory model on a text of n symbolic code points, under the same parse-time settings; they must '
                       'agree on accept/reject, on failing with a parse error, and on the AST. Generated sources are also compiled (valid Python). One loaded parser '
                       'OBJECT reused after failed and successful calls with per-call settings must then parse like the model without settings. Regex literals (pattern and '
                       '@@whitespace directive) holding one solver-selected code point are generated, loaded and compared with the model on texts around that character. Kernel: '
                       'safe_name on symbolic rule names.',
        'functions_encoded': ['tatsu.ngcodegen.ngparser_gen:PythonParserGenerator.* (run concretely to produce the source)', 'generated parser module (symbolic)', 'tatsu.parsing:Parser',
                              'tatsu.contexts.decorator.rule:rule', 'tatsu.contexts.ctxlib.choice|loop|loopsep|exp', 'tatsu.contexts.context:ParseContext.option/choice/optional/group/nameset/nameadd/result/loopopt/joinopt/gather*/skip_to',
                              'tatsu.util.strtools:safe_name'],
        'bounds': f'{progs} grammars ({len(core)} of the C01 core + {len(TEXT_GRAMMARS)} with directives, rule parameters, @name/keywords, upper-case and keyword-like rule names, '
                  f'named groups, meta expressions, based rules) x settings {setts} (+ per-grammar extras); text length 0..{maxn} over all Unicode',
        'outside': 'longer texts; other grammars; semantic actions (C06); left recursion (C03)',
        'assumptions': ['the in-memory model is the reference side (its own conformance is C01)'],
    }
