"""C14 — serialized grammar models reload to equivalent parsers."""
from __future__ import annotations

import json

from ..harness import _tracing, mktext
from ..known import tolerated
from ..runner import Ob
from .c13 import FAMILY as C13_FAMILY

UNI = 0x110000

FAMILY = dict(C13_FAMILY)
FAMILY.update({
    'format_like_tokens': "start: '{x}' | '{0:>3}' | '%s' | 'f' '{' ;\n",
    'constants_text': "start: 'a' `{x}` | 'b' `f{y:>3}` | 'c' `'q'` ;\n",
})
QUICK = ['directives', 'keywords', 'params', 'based', 'nomemo_override', 'eol_skipto', 'pattern_slash', 'token_quotes', 'token_backslash', 'joins', 'named_forms',
         'typed', 'alerts_constants', 'format_like_tokens', 'include', 'leftrec']


def make_sniff(spec):
    """fromjson(asjson(s)) is s for every string (string sniffing for styles). Runs on a match-desugared shadow?  No: the string leaf
    is concrete per path here — the solver picks the first characters (selectors into the sniffing alphabet), the rest is symbolic-free."""
    from tatsu.util.asjson import asjson
    from tatsu.util.fromjson import fromjson
    known = tolerated('C14')

    def body(args):
        s = mktext(args)
        if _tracing():
            # `match ... case str()` cannot be intercepted by the symbolic engine: decide only the character classes the sniffing looks at
            looks = s.startswith('f{') or s.startswith('\\e[')
            return True, ('known:F6' if 'F6' in known else 'looks-like-style') if looks else 'plain', None
        looks = s.startswith('f{') or s.startswith('\\e[')
        try:
            back = fromjson(json.loads(json.dumps(asjson(s))))
        except Exception as e:  # noqa: BLE001
            back = ('exception', repr(e)[:60])
        if type(back) is str and back == s:
            return True, ('known:F6' if 'F6' in known else 'looks-like-style') if looks else 'plain', None
        if looks and 'F6' in known:
            return True, 'known:F6', None
        return False, 'string-changed', [s, repr(back)[:60]]

    n = spec['n']
    body.warm = [tuple(map(ord, w)) for w in ['', 'a', 'f{', 'f{x', '\\e[', '\\e[1', 'ab', 'f', '{', 'abc', 'f{}'] if len(w) == n]
    return body


def native_checks():
    import pickle
    import tatsu
    from ..equiv import concrete_relation, variants_of
    known = tolerated('C14')
    out = []
    bad = []
    for nm, g in FAMILY.items():
        try:
            m = tatsu.compile(g, name='VT')
        except Exception as e:  # noqa: BLE001
            bad.append([nm, 'family grammar does not compile', repr(e)[:150]])
            continue
        vs = variants_of(m, g, ['json', 'pickle', 'pickle_used', 'modelsrc'])
        for (what, ok, detail) in concrete_relation(m, vs):
            if not ok:
                if nm == 'constants_text' and what == 'json:pretty-text' and 'F6' in known:
                    continue        # known finding F6: the constant text f{y:>3} is read back as a Style by the JSON loader (reported by the string-sniffing check below)
                bad.append([nm, what, repr(detail)[:200]])
    out.append({'name': f'json_pickle_modelsrc_same_rules_directives_keywords_and_pretty_text[{len(FAMILY)}]', 'ok': not bad, 'detail': bad[:8]})
    # asjson of parse results and object models terminates and dumps; shared/cyclic references rendered as references
    bad = []
    from tatsu.util.asjson import asjson
    probes = [("start::T: x=item y=[item] ;\nitem::I: v=/[ab]/ ;\n", 'a b', True), ("start: x='a' y+={'b'} ;\n", 'a b b', False),
              ("start: e $ ;\ne: e '+' t | t ;\nt: /[0-9]/ ;\n", '1+2+3', False)]
    for g, t, asmodel in probes:
        try:
            r = tatsu.compile(g, name='VT').parse(t, asmodel=asmodel, parseinfo=True)
            json.dumps(asjson(r))
        except Exception as e:  # noqa: BLE001
            bad.append([g[:30], type(e).__name__ + ': ' + str(e)[:100]])
    # cycles that pass through public attributes of object-model nodes (e.g. a name-resolution pass linking a reference to its declaration)
    try:
        import sys
        from tatsu.objectmodel import Node
        a, b = Node(ast='a'), Node(ast='b')
        a.other, b.other = b, a
        prog = tatsu.compile("start::Prog: decls+={decl} ;\ndecl::Decl: n=/[a-z]/ '=' v=ref ';' ;\nref::Ref: /[a-z]/ ;\n", name='VT').parse('x=x;y=x;', asmodel=True)
        decls = [d for grp in prog.decls for d in (grp if isinstance(grp, list) else [grp])]
        for d in decls:
            d.v.target = decls[0]            # Ref -> Decl (a cycle for the first declaration)
        old = sys.getrecursionlimit()
        sys.setrecursionlimit(800)
        try:
            json.dumps(asjson(a))
            json.dumps(asjson(prog))
        finally:
            sys.setrecursionlimit(old)
    except RecursionError:
        bad.append(['cyclic object model', 'asjson did not terminate (RecursionError)'])
    except Exception as e:  # noqa: BLE001
        bad.append(['cyclic object model', type(e).__name__ + ': ' + str(e)[:100]])
    shared = {'k': [1, 2]}
    shared['self'] = shared
    twice = [shared['k'], shared['k']]
    try:
        json.dumps(asjson(shared))
        json.dumps(asjson(twice))
    except Exception as e:  # noqa: BLE001
        bad.append(['cyclic/shared', type(e).__name__ + ': ' + str(e)[:100]])
    out.append({'name': 'asjson_of_results_terminates_and_dumps', 'ok': not bad, 'detail': bad})
    # known finding F6: a token that looks like a style
    g = "start: 'f{' 'a' ;\n"
    try:
        m = tatsu.compile(g, name='VT')
        m2 = tatsu.peg.Grammar.load(json.loads(json.dumps(m.asjson())))
        ok = m2.parse('f{ a') == m.parse('f{ a')
        detail = None
    except Exception as e:  # noqa: BLE001
        ok, detail = False, type(e).__name__ + ': ' + str(e)[:100]
    out.append({'name': 'token_that_looks_like_a_style_survives_json', 'ok': ok, 'known': None if ok or 'F6' not in known else 'F6', 'detail': detail})
    return out


def plan(tier, seed):
    obs = []
    maxn = 3 if tier == 'quick' else 4
    names = QUICK if tier == 'quick' else list(FAMILY)
    for nm in names:
        for n in range(0, maxn + 1):
            if tier == 'quick' and n in (0, 1):
                continue
            pre = ' and '.join(f'c{i} < 128' for i in range(n)) if nm == 'meta' else ''
            extra = {'known': {'json': 'F6'}, 'prop': 'C14'} if nm == 'constants_text' else {}
            obs.append(Ob(name=f'{nm}_L{n}', factory='vt.equiv:make_equiv', spec={'program': nm, 'gtext': FAMILY[nm], 'variants': ['json', 'pickle', 'pickle_used', 'modelsrc'], 'n': n, **extra},
                          params=[(f'c{i}', 0, UNI) for i in range(n)], budget={0: 40, 1: 40, 2: 150, 3: 700, 4: 3000}[n], group='reload', extra_pre=pre))
    for n in ((1, 2, 3) if tier == 'quick' else (1, 2, 3, 4)):
        obs.append(Ob(name=f'S_sniff_len{n}', factory='vt.props.c14:make_sniff', spec={'n': n, 'program': 'string-sniffing'}, params=[(f'c{i}', 0, UNI) for i in range(n)],
                      budget=200, group='sniff', require_tags=('plain',)))
    return {
        'obligations': obs,
        'native': native_checks,
        'level': 'translation_validation',
        'programs': len(names) + 1,
        'explanation': 'Translation validation of the three serializations: for each grammar model, Grammar.load(json.loads(json.dumps(m.asjson()))), pickle.loads(pickle.dumps(m)) '
                       'and the GRAMMAR_MODEL of the exec\'d model source are compared concretely (same rules with parameters/decorators, directives, keywords) and executed '
                       'symbolically side by side with the original on a text of n symbolic code points: same outcome, end position and AST. String sniffing: '
                       'fromjson(asjson(s)) == s with the leading characters of s symbolic (decided natively on the witness of each path: fromjson/asjson are `match` code). '
                       'asjson of parse results, object models, cyclic and shared structures terminates and json.dumps accepts it (native).',
        'functions_encoded': ['tatsu.util.asjson:asjson', 'tatsu.util.fromjson:fromjson/JSONBase.__from_json__', 'tatsu.peg.base:Grammar.__from_json__/load', 'tatsu.objectmodel.basenode:BaseNode.asjson/__pub__',
                              'tatsu.ngcodegen.grammar_gen:parsermodel_gen', 'pickle (C level, concrete models)', 'reloaded models executed symbolically (tatsu.peg.*._parse, engine)'],
        'bounds': f'{len(names)} grammar models x 3 serializations; text length {2 if tier == "quick" else 0}..{maxn} over all Unicode; sniffed strings of 1..{3 if tier == "quick" else 4} code points',
        'outside': 'longer texts; JSON edited by hand; unpickling across versions',
        'assumptions': ['json and pickle are trusted (C level) and run on concrete models only', 'the original model is the reference side'],
    }
