"""C15 — the shipped bootstrap parser agrees with the shipped TatSu grammar (and C08-C: compiling near-grammar text raises only TatSu errors)."""
from __future__ import annotations

from ..harness import _tracing, mktext, skel
from ..runner import Ob

UNI = 0x110000

# (name, text before the hole, text after the hole): one seed per production group of _tatsu.ebnf
SEEDS = [
    ('expr_start', "s: ", "\n"),
    ('after_element', "s: 'a' ", "\n"),
    ('prefix_op', "s: ", "'a'\n"),
    ('naming_op', "s: x", "'a'\n"),
    ('closure_suffix', "s: {'a'}", "\n"),
    ('join_op', "s: ','", "{'a'}\n"),
    ('rule_def_op', "s", " 'a'\n"),
    # a repetition suffix glued to a following '=': `}+=` is the closing brace and the override-list operator, guarded by !/\+=/ in every repetition production (seed C15-6)
    ('join_suffix_before_eq', "s: ','%{'x'}", "= 'y' $\n"),
    ('gather_suffix_before_eq', "s: ','.{'x'}", "= 'y' $\n"),
    ('closure_suffix_before_eq', "s: {'x'}", "= 'y' $\n"),
    ('rule_def_op_bnf', "s:", "= 'a'\n"),
    # a comment between the rule head and the definition operator: only the void () of the rule production skips it
    ('rule_def_op_after_comment', "s (* c *)", " 'a'\n"),
    ('rule_def_op_after_eol_comment', "s[A] # c\n", " 'a'\n"),
    ('meta_name', "s: @", "nt\n"),
    ('after_dollar', "s: $", "\n"),
    ('regex_content', "s: /a", "/\n"),
    ('string_end', "s: 'a", "\n"),
    ('alert_level', "s: ^", "`x`\n"),
    ('constant_content', "s: `", "`\n"),
    ('params', "s(", "): 'a'\n"),
    ('param_literal_prefix', "s[True", "]: 'a'\n"),
    ('kwparam_literal_prefix', "s(k=null", "): 'a'\n"),
    ('leading', "", "s: 'a'\n"),
    ('directive_value', "@@nameguard :: ", "\ns: 'a'\n"),
    ('between_rules', "s: 'a'\n", "\nr: 'b'\n"),
    ('option_sep', "s: 'a' ", " 'b'\n"),
    ('group_content', "s: (", ")\n"),
    ('optional_q', "s: 'a'", "\n"),
]
QUICK = ['join_suffix_before_eq', 'expr_start', 'prefix_op', 'naming_op', 'rule_def_op', 'rule_def_op_bnf', 'rule_def_op_after_comment', 'alert_level', 'params', 'leading', 'param_literal_prefix']
REGEN_QUICK = ['param_literal_prefix', 'rule_def_op']      # seeds that also run the parser regenerated from _tatsu.ebnf in the quick tier


def norm(v):
    if isinstance(v, dict):
        return {k: norm(x) for k, x in v.items() if k not in ('parseinfo', '__parseinfo__')}
    if isinstance(v, (list, tuple)):
        return [norm(x) for x in v]
    return v


def make_boot(spec):
    import pathlib
    import tatsu
    from tatsu.boot.bootstrap import TatSuBootstrapParser as GeneratedBoot
    from tatsu.boot.bootparser import GRAMMAR_MODEL
    from tatsu.exceptions import FailedParse, GrammarError, ParseException
    from tatsu.peg import GrammarSemantics
    pre, post = spec['pre'], spec['post']
    ebnf = pathlib.Path(tatsu.__file__).parent.joinpath('_tatsu.ebnf').read_text()
    compiled = tatsu.compile(ebnf, name='TatSuVT').optimized()
    shipped_model = GRAMMAR_MODEL.optimized()
    regenerated = None
    if spec.get('regen'):
        src = tatsu.to_python_sourcecode(ebnf, name='TatSuRegen')
        ns: dict = {}
        exec(compile(src, '<regenerated bootstrap>', 'exec'), ns)  # noqa: S102
        regenerated = ns['TatSuRegenParser']

    def guarded(f, t):
        try:
            return ('ok', norm(f(t)))
        except FailedParse:
            return ('fail',)
        except RecursionError:
            return ('recursion',)
        except Exception as e:  # noqa: BLE001
            return ('exception', type(e).__name__ + ': ' + str(e)[:80])

    sides = [
        ('generated-bootstrap', lambda t: GeneratedBoot().parse(t, parseinfo=False)),
        ('shipped-model', lambda t: shipped_model._do_parse(t, parseinfo=False, semantics=None)),
        ('compiled-ebnf', lambda t: compiled._do_parse(t, parseinfo=False, semantics=None)),
    ]
    if regenerated is not None:
        sides.append(('regenerated', lambda t: regenerated().parse(t, parseinfo=False)))

    def build_models(t):
        """natively: the grammar models built through GrammarSemantics by the bootstrap parser and by the compiled grammar"""
        out = []
        for name, f in (('tatsu.compile', lambda: tatsu.compile(t, name='W')),
                        ('compiled-ebnf+GrammarSemantics', lambda: compiled._do_parse(t, semantics=GrammarSemantics(name='W'), parseinfo=False))):
            try:
                m = f()
                out.append((name, 'ok', m.pretty(), m.asjson()))
            except (ParseException,) as e:
                out.append((name, 'tatsu-error', type(e).__name__ if not isinstance(e, FailedParse) else 'FailedParse', None))
            except RecursionError:
                out.append((name, 'ESCAPED', 'RecursionError', None))
            except Exception as e:  # noqa: BLE001
                out.append((name, 'ESCAPED', type(e).__name__ + ': ' + str(e)[:80], None))
        return out

    def body(args):
        t = pre + mktext(args) + post
        results = [(nm, guarded(f, t)) for nm, f in sides]
        first = results[0][1]
        if first[0] not in ('ok', 'fail'):
            return False, 'bootstrap-' + first[0], first[1:]
        for nm, r in results[1:]:
            if r[0] != first[0]:
                return False, 'decision-differs', [results[0][0], first[0], nm, r[0], r[1] if r[0] == 'exception' else None]
            if first[0] == 'ok' and not (r[1] == first[1]):
                return False, 'ast-differs', [results[0][0], nm, skel(first[1]), skel(r[1])]
        if not _tracing():
            ms = build_models(t)
            for m in ms:
                if m[1] == 'ESCAPED':
                    return False, 'non-tatsu-exception', [m[0], m[2]]      # C08-C
            a, b = ms
            if a[1] != b[1]:
                return False, 'model-building-differs', [a[0], a[1], a[2][:60] if a[2] else None, b[0], b[1], b[2][:60] if b[2] else None]
            if a[1] == 'ok' and (a[2] != b[2]):
                return False, 'models-differ', [a[2][:80], b[2][:80]]
            if a[1] == 'ok' and first[0] != 'ok':
                return False, 'compiles-but-parse-rejects', None
        return True, ('accepted' if first[0] == 'ok' else 'rejected'), None

    def explain(args):
        t = pre + mktext(args) + post
        return f'grammar text={t!r}\n' + '\n'.join(f'{nm}: {guarded(f, t)!r}'[:300] for nm, f in sides) + '\n' + repr([m[:3] for m in build_models(t)])[:400]

    body.explain = explain
    k = spec['k']
    body.warm = [tuple(map(ord, w)) for w in ["a", "'", "(", "~", "$", " ", "#", "+", "=", ":", "%", "&", "*", "\n", ";", "|", "?", "/", "i", "x", "ab", "+=", "->", "::", "()", "  "] if len(w) == k]
    return body


FUNCS = ['tatsu.boot.bootstrap:TatSuBootstrapParser (generated, executed symbolically)', 'tatsu.boot.bootparser:GRAMMAR_MODEL (executed symbolically)', 'tatsu._tatsu.ebnf compiled at run time (executed symbolically)',
         'tatsu.peg.semantics:GrammarSemantics (native on witnesses)', 'tatsu.ngcodegen.ngparser_gen (regenerated parser, thorough)']


def obligations(tier, seed, group='boot'):
    obs = []
    names = QUICK if tier == 'quick' else [s[0] for s in SEEDS]
    for nm, pre, post in SEEDS:
        if nm not in names:
            continue
        obs.append(Ob(name=f'hole1_{nm}', factory='vt.props.c15:make_boot', spec={'program': nm, 'pre': pre, 'post': post, 'k': 1, 'regen': tier != 'quick' or nm in REGEN_QUICK},
                      params=[('c0', 0, UNI)], budget=360 if tier == 'quick' else 1800, per_path=120, group=group, require_tags=('rejected',)))
    if tier != 'quick':
        for nm, pre, post in SEEDS[:6]:
            obs.append(Ob(name=f'hole2_{nm}', factory='vt.props.c15:make_boot', spec={'program': nm, 'pre': pre, 'post': post, 'k': 2, 'regen': False},
                          params=[('c0', 0, UNI), ('c1', 0, UNI)], budget=3000, per_path=120, group=group))
    return obs


def native_checks():
    """production coverage of the seeds + the full fixpoint on the TatSu grammar itself (concrete)"""
    import pathlib
    import tatsu
    out = []
    ebnf = pathlib.Path(tatsu.__file__).parent.joinpath('_tatsu.ebnf').read_text()
    try:
        m1 = tatsu.compile(ebnf, name='TatSuBootstrap')
        from tatsu.boot.bootparser import GRAMMAR_MODEL
        same = m1.pretty() == GRAMMAR_MODEL.pretty()
        out.append({'name': 'shipped_model_is_the_compiled_grammar_file', 'ok': same, 'detail': None if same else 'pretty() texts differ'})
        src = tatsu.to_python_sourcecode(ebnf, name='TatSuBootstrap')
        compile(src, 'regenerated', 'exec')
        out.append({'name': 'regenerated_bootstrap_compiles', 'ok': True})
    except Exception as e:  # noqa: BLE001
        out.append({'name': 'bootstrap_fixpoint', 'ok': False, 'detail': type(e).__name__ + ': ' + str(e)[:200]})
    return out


def plan(tier, seed):
    obs = obligations(tier, seed)
    return {
        'obligations': obs,
        'native': native_checks,
        'level': 'translation_validation',
        'programs': len(obs),
        'explanation': 'Three-way (thorough: four-way) translation validation on grammar TEXT with a symbolic hole: seed grammars, one per production group of _tatsu.ebnf, with k '
                       'symbolic code points at a cut position are parsed symbolically by the checked-in generated bootstrap parser, by the checked-in GRAMMAR_MODEL and by '
                       'the model compiled from _tatsu.ebnf at run time (thorough: also by a parser regenerated from _tatsu.ebnf): same accept/reject decision and equal ASTs '
                       '(semantics=None). On the witness of each path, natively: tatsu.compile(text) and the compiled grammar with GrammarSemantics build models with equal '
                       'pretty() text, and only TatSu exception types escape (C08-C).',
        'functions_encoded': FUNCS,
        'bounds': f'{len(obs)} holes (k=1 at {len([o for o in obs if "hole1" in o.name])} seeds' + ('' if tier == 'quick' else ', k=2 at 6 seeds') + '), all Unicode code points in the hole',
        'outside': 'holes of more than 2 code points; seeds other than the listed ones; grammar texts far from the seeds',
        'assumptions': ['semantics=None ASTs are compared for the symbolic stage; model building (GrammarSemantics) is compared natively on witnesses'],
    }
