"""C08 — bad input and bad grammars are reported as TatSu errors at valid positions."""
from __future__ import annotations

from ..harness import mktext
from ..runner import Ob

UNI = 0x110000
MATCHERS = ['int', 'uint', 'float', 'bool', 'name']


def shape_int(s, signed=True):
    """reference recognizer of the strings int() accepts (decimal digits of any script, single underscores between digits)"""
    i = 0
    n = len(s)
    if signed and i < n and (s[i] == '+' or s[i] == '-'):
        i += 1
    if i >= n or not s[i].isdecimal():
        return False
    while i < n:
        if s[i].isdecimal():
            i += 1
        elif s[i] == '_' and i + 1 < n and s[i + 1].isdecimal():
            i += 1
        else:
            return False
    return True


def shape_float(s):
    """[sign] digits [ '.' [digits] ] [ e [sign] digits ]"""
    n = len(s)
    i = 0
    if i < n and (s[i] == '+' or s[i] == '-'):
        i += 1
    j = i
    while j < n and (s[j].isdecimal() or s[j] == '_'):
        j += 1
    if not shape_int(s[i:j], signed=False):
        return False
    i = j
    if i < n and s[i] == '.':
        i += 1
        j = i
        while j < n and (s[j].isdecimal() or s[j] == '_'):
            j += 1
        if j > i and not shape_int(s[i:j], signed=False):
            return False
        i = j
    if i < n and (s[i] == 'e' or s[i] == 'E'):
        return shape_int(s[i + 1:], signed=True)
    return i == n


def make_matcher(spec):
    """A: the character matchers never raise; a returned value is the conversion of exactly the consumed slice.
    Symbolic stage: the position functions (character class tests only) + a reference recognizer of what int()/float() accept.
    Native stage (witness of every path): the cursor-level matcher with the real conversion."""
    from tatsu.input import cursor as cursormod
    from tatsu.input.buffer import Buffer
    from tatsu.input.textlines import TextLines
    from ..harness import _tracing
    which = spec['matcher']
    cls = {'TextLines': TextLines, 'Buffer': Buffer}[spec.get('cls', 'TextLines')]
    n = spec['n']
    namechars = spec.get('namechars', '')
    posfn = getattr(cursormod, 'match_' + which, None)

    def native_cursor(t, pos):
        """-> None or (why)"""
        inp = cls(t, namechars=namechars)
        cur = inp.newcursor()
        cur.goto(pos)
        try:
            v = getattr(cur, 'match' + which)()
        except Exception as e:  # noqa: BLE001
            return 'exception ' + type(e).__name__ + ': ' + str(e)[:60], None
        end = cur.pos
        if v is None:
            return (None if end == pos else f'moved-on-failure {pos}->{end}'), None
        if not (pos < end <= len(t)):
            return f'bad-end {pos}->{end}', None
        piece = t[pos:end]
        try:
            if which in ('int', 'uint'):
                okv = (v == int(piece)) and (which == 'int' or v >= 0) and type(v) is int
            elif which == 'float':
                okv = (v == float(piece)) and type(v) is float
            elif which == 'bool':
                okv = (v is True and piece in ('true', 'True')) or (v is False and piece in ('false', 'False'))
            else:
                okv = (v == piece)
        except Exception as e:  # noqa: BLE001
            return f'value-not-convertible {piece!r} {e!r}'[:90], None
        return (None if okv else f'wrong-value {piece!r} -> {v!r}'), end

    def body(args):
        t = mktext(args)
        seen = 'triv:none'
        ends = []
        for pos in range(n + 1):
            if posfn is not None:
                try:
                    p = posfn(t, pos, set(namechars)) if which == 'name' else posfn(t, pos)
                except Exception as e:  # noqa: BLE001
                    return False, 'exception', [pos, type(e).__name__ + ': ' + str(e)[:60]]
                if p is None or p <= 0:
                    ends.append(-1)
                else:
                    if not (pos < p <= n):
                        # (a match of zero characters after position 0 is how @uint used to reach int(''))
                        return False, 'bad-end', [pos, p]
                    piece = t[pos:p]
                    if which == 'int' and not shape_int(piece):
                        return False, 'not-an-int-literal', [pos, p]
                    if which == 'uint' and not shape_int(piece, signed=False):
                        return False, 'not-a-uint-literal', [pos, p]
                    if which == 'float' and not shape_float(piece):
                        return False, 'not-a-float-literal', [pos, p]
                    if which == 'bool' and not (piece == 'true' or piece == 'True' or piece == 'false' or piece == 'False'):
                        return False, 'not-a-bool-literal', [pos, p]
                    seen = 'matched'
                    ends.append(p)
            if posfn is None or not _tracing():
                why, end = native_cursor(t, pos)
                if why is not None:
                    return False, why.split(' ')[0], [pos, why]
                if posfn is not None and (end or -1) != ends[-1]:
                    return False, 'cursor-disagrees-with-position-function', [pos, end, ends[-1]]
                if posfn is None and end:
                    seen = 'matched'
        return True, seen, ends

    body.explain = lambda args: f'text={mktext(args)!r} matcher=@{which}: ' + repr([native_cursor(mktext(args), p) for p in range(n + 1)])
    warm = ['', '1', '12', 'a1', '1.5', '-1', '+1e', 'true', 'fals', 'a_b', '1_0', '1.e5', 'x 1', '1.+5', 'a', '-', '1a', '_', 'True', 'false',
            '1.5e3', '12345', '-1.5e-3', 'abcdef', 'falsey', ' 1', '1 ', '1..2', 'e5', '.5', '\u00b2', '1\u00b2', '\u0661\u0662', 'a\u0663']
    ws = [tuple(map(ord, w)) for w in warm if len(w) == n]
    body.warm = ws or [tuple([ord('1')] * n)]
    return body


def plan(tier, seed):
    maxn = 4 if tier == 'quick' else 6
    obs = []
    budget = {0: 30, 1: 40, 2: 60, 3: 120, 4: 400, 5: 1500, 6: 3000}
    for m in MATCHERS:
        lo = 4 if m == 'bool' else 0       # 'true' needs 4 characters: shorter texts cannot match
        for n in range(0, max(maxn, 5 if m == 'bool' else 0) + 1):
            obs.append(Ob(name=f'A_{m}_len{n}', factory='vt.props.c08:make_matcher', spec={'matcher': m, 'n': n},
                          params=[(f'c{i}', 0, UNI) for i in range(n)], budget=budget[n], group='A',
                          require_tags=('matched',) if n >= max(1, lo) and n <= 3 or (m == 'bool' and n in (4, 5)) else ()))
    obs.append(Ob(name='A_name_namechars_len3', factory='vt.props.c08:make_matcher', spec={'matcher': 'name', 'n': 3, 'namechars': '-$'},
                  params=[(f'c{i}', 0, UNI) for i in range(3)], budget=150, group='A'))
    obs.append(Ob(name='A_int_Buffer_len3', factory='vt.props.c08:make_matcher', spec={'matcher': 'int', 'n': 3, 'cls': 'Buffer'},
                  params=[(f'c{i}', 0, UNI) for i in range(3)], budget=150, group='A'))
    from . import c08b
    obs += c08b.obligations(tier, seed)
    return {
        'obligations': obs,
        'level': 'other',
        'programs': 20,
        'explanation': 'A: the @int/@uint/@float/@bool/@name character matchers run symbolically on texts of n symbolic code points at every offset: no '
                       'exception, the cursor moves only on success, and the returned value is the conversion of exactly the consumed slice. '
                       + c08b.EXPLANATION,
        'functions_encoded': ['tatsu.input.cursor:match_int/match_uint/match_float/match_bool/match_name/matchint/matchuint/matchfloat/matchbool/matchname/matchstr',
                              'tatsu.input.textlines:TextLinesCursor.goto/matchint..', 'tatsu.input.buffer:BufferCursor.matchint'] + c08b.FUNCS,
        'bounds': f'A: text length 0..{maxn} (bool: ..5) over all Unicode, every start offset. ' + c08b.bounds(tier),
        'outside': 'longer texts (e.g. digit strings beyond the interpreter\'s int-string limit); ' + c08b.OUTSIDE,
        'assumptions': ['int()/float() of the consumed slice define the expected value', 'CrossHair/z3 models validated per path natively'],
    }
