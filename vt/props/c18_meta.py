META = {
    'level': 'other',
    'text': 'Schedule exploration with solver-chosen schedule variables on the real refill loop: completion order, worker count and failing subset are solver variables; '
            'the real executor_pmap/taskproc code runs against deterministic executor and as_completed stubs and must yield exactly one result per payload for every '
            'schedule within the bound. Whether a task is dropped or yielded twice depends on which futures complete between snapshots of the pending set.',
    'note': 'This family of technique cannot interleave real processes: the executor and as_completed are stubs (listed in the evidence); real pools are only sampled once '
            'natively. The solver enumerates small selector ranges; the loop itself runs natively per path.',
    'technique': 'solver-chosen schedule variables (completion order, worker count, failing subset) explored exhaustively by CrossHair/z3 within the bound; the real refill loop runs natively per schedule against stub executor/as_completed',
}
