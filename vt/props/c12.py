"""C12 — source positions and parse information are exact."""
from __future__ import annotations

from ..harness import mktext
from ..runner import Ob

UNI = 0x110000


def is_break_py(c):
    # Python's own notion of a line boundary (str.splitlines): ONE class test per character
    return len((c + 'x').splitlines()) == 2


def is_break_crlf(c):
    return c == '\n' or c == '\r'


def ref_lines(t, is_break):
    """Independent reference: walk the text once, cut after each line break (CR LF is one break)."""
    spans = []
    i = 0
    n = len(t)
    s = 0
    while i < n:
        c = t[i]
        if is_break(c):
            if c == '\r' and i + 1 < n and t[i + 1] == '\n':
                i += 1
            spans.append((s, i + 1))
            s = i + 1
        i += 1
    if s < n:
        spans.append((s, n))
    return spans


def _check_against(cur, obj, t, spans, legacy):
    n = len(t)
    for pos in range(n):
        k = 0
        while not (spans[k][0] <= pos < spans[k][1]):
            k += 1
        s, e = spans[k]
        li = cur.lineinfo(pos)
        if not (li.line == k and li.col == pos - s and li.start == s and li.end == e):
            return f'lineinfo({pos})'
        if not (li.text == t[s:e]):
            return f'lineinfo({pos}).text'
        if not (cur.lineat(pos) == k and cur.poscol(pos) == pos - s):
            return f'lineat/poscol({pos})'
        cur.goto(pos)
        if not (cur.line == k and cur.col == pos - s):
            return f'cursor.line/col at {pos}'
        if not (cur.get_line(k) == t[s:e]):
            return f'get_line({k})'
        if legacy:
            if not (obj.posline(pos) == k and obj.poscol(pos) == pos - s):
                return f'Buffer.posline/poscol({pos})'
            obj.goto(pos)
            li2 = obj.lineinfo()
            if not (li2.line == k and li2.col == pos - s and li2.start == s and li2.end == e and li2.text == t[s:e]):
                return f'Buffer.lineinfo() at {pos}'
    return None


def _check_end(cur, t, spans):
    """pos == len: the property does not fix a convention for the line *number* there; require the documented clamp
    (lineinfo(len) describes the last character's line) and that nothing raises."""
    n = len(t)
    li = cur.lineinfo(n)
    if n == 0:
        if not (li.line == 0 and li.col == 0 and li.start == 0 and li.end == 0 and li.text == ''):
            return 'lineinfo(0) of empty text'
        if not (cur.lineat(0) == 0 and cur.poscol(0) == 0):
            return 'lineat/poscol(0) of empty text'
        return None
    s, e = spans[-1]
    if not (li.start == s and li.end == e and li.text == t[s:e] and li.line == len(spans) - 1):
        return 'lineinfo(len) is not the last line'
    la = cur.lineat(n)
    if not (len(spans) - 1 <= la <= len(spans) + 1):
        return 'lineat(len) out of range'
    pc = cur.poscol(n)
    if not (0 <= pc <= n):
        return 'poscol(len) out of range'
    return None


def make_lineinfo(spec):
    from tatsu.input.buffer import Buffer
    from tatsu.input.textlines import TextLines
    cls = {'TextLines': TextLines, 'Buffer': Buffer}[spec['cls']]
    legacy = spec['cls'] == 'Buffer'
    n = spec['n']

    def body(args):
        t = mktext(args)
        try:
            obj = cls(t)
            cur = obj.newcursor()
            if not (obj.textstr == t if not legacy else obj.text == t):
                return False, 'text-changed', None
            sp = ref_lines(t, is_break_py)
            why = _check_against(cur, obj, t, sp, legacy)
            if why is not None:
                # the other admissible reading of "line breaks": LF, CR, CRLF only
                sp2 = ref_lines(t, is_break_crlf)
                if _check_against(cur, obj, t, sp2, legacy) is None:
                    sp, why = sp2, None
            if why is None:
                why = _check_end(cur, t, sp)
        except Exception as e:  # noqa: BLE001
            return False, 'exception', type(e).__name__ + ': ' + str(e)[:80]
        if why is not None:
            return False, 'mismatch', why
        tag = 'lines>1' if len(sp) > 1 else 'triv:single-line'
        return True, tag, [list(x) for x in sp]

    def explain(args):
        t = mktext(args)
        obj = cls(t)
        cur = obj.newcursor()
        out = [f'text={t!r} reference lines={ref_lines(t, is_break_py)}']
        for pos in range(len(t) + 1):
            try:
                out.append(f'  pos {pos}: {cur.lineinfo(pos)} lineat={cur.lineat(pos)} poscol={cur.poscol(pos)}')
            except Exception as e:  # noqa: BLE001
                out.append(f'  pos {pos}: raises {e!r}')
        return '\n'.join(out)

    body.explain = explain
    warm = ['', 'a', 'a\nb', 'a\r\nb', '\r\r\n\x0bq', 'ab\n', '\n\n', 'x\ry z']
    body.warm = [tuple(map(ord, w[:n].ljust(n, 'a'))) for w in warm]
    return body


FUNCS = ['tatsu.input.textlines:TextLines.__init__/_preprocess/_postprocess', 'tatsu.input.textlines:TextLinesCursor.lineinfo/lineat/poscol/line/col/get_line/goto',
         'tatsu.input.buffer:Buffer.__init__/_preprocess/_postprocess/posline/poscol/lineinfo/goto', 'tatsu.input.buffer:BufferCursor.lineinfo/lineat/poscol/line/col',
         'tatsu.input.infos:PosLine.build_line_cache', 'tatsu.input.infos:LineIndexInfo.block_index']


def plan(tier, seed):
    maxn = 4 if tier == 'quick' else 6
    obs = []
    for cls in ('TextLines', 'Buffer'):
        for n in range(0, maxn + 1):
            budget = {0: 30, 1: 30, 2: 40, 3: 60, 4: 200, 5: 900, 6: 2400}[n]
            obs.append(Ob(name=f'A_{cls}_len{n}', factory='vt.props.c12:make_lineinfo', spec={'cls': cls, 'n': n},
                          params=[(f'c{i}', 0, UNI) for i in range(n)], budget=budget, group='A',
                          require_tags=('lines>1',) if n >= 2 else ()))
    from . import c12b
    obs += c12b.obligations(tier, seed)
    return {
        'obligations': obs,
        'level': 'other',
        'explanation': 'Symbolic execution (CrossHair/z3) of the real line-cache and cursor code on texts of N symbolic code points '
                       '(all of Unicode), compared at every offset with an independent single-pass line splitter; and of the real '
                       'parse engine with parseinfo=True against the reference PEG evaluator\'s rule spans. "exhausted" obligations were '
                       'confirmed over all paths, i.e. for every text of that length.',
        'functions_encoded': FUNCS + c12b.FUNCS,
        'bounds': f'A: text length 0..{maxn} code points over all of Unicode, every offset 0..len, both input classes. ' + c12b.bounds(tier),
        'outside': 'longer texts; the line NUMBER reported at offset == len (convention not fixed by the property; range-checked only); '
                   'includes (Buffer.include) and custom process_block overrides',
        'assumptions': ['line-break class per character is Python str.splitlines (or LF/CR only, either reading accepted per text)',
                        'CrossHair models of str/int/list operations are faithful: validated per path by native re-execution on a witness'],
    }
