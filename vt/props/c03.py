"""C03 — left-recursive rules parse, terminate and associate to the left."""
from __future__ import annotations

from ..grammars import A, C, EOF_, N, OPT, S, T
from ..runner import Ob
from .c01 import FUNCS as C01_FUNCS

UNI = 0x110000

GRAMMARS = {
    'direct': [('start', S(C('e'), EOF_)), ('e', A(S(C('e'), T('+'), C('t')), C('t'))), ('t', A(T('x'), S(T('('), C('e'), T(')'))))],
    'two_ops': [('start', S(C('e'), EOF_)), ('e', A(S(C('e'), T('+'), C('m')), S(C('e'), T('-'), C('m')), C('m'))),
                ('m', A(S(C('m'), T('*'), C('a')), C('a'))), ('a', A(T('x'), S(T('-'), C('a'))))],
    'aliased': [('start', S(C('x'), EOF_)), ('x', C('e')), ('e', A(S(C('x'), T('+'), C('t')), C('t'))), ('t', T('x'))],
    'mutual': [('start', S(C('a'), EOF_)), ('a', A(S(C('b'), T('+')), T('x'))), ('b', A(S(C('a'), T('*')), T('x')))],
    'optprefix': [('start', S(C('e'), EOF_)), ('e', A(S(OPT(T('-')), C('e'), T('+'), C('t')), C('t'))), ('t', T('x'))],
    'named': [('start', S(C('e'), EOF_)), ('e', A(S(N('l', C('e')), N('op', T('+')), N('r', C('t'))), C('t'))), ('t', T('x'))],
    'rightrec': [('start', S(C('e'), EOF_)), ('e', A(S(C('e'), T('+'), C('e')), T('x')))],
    'noeof': [('start', C('e')), ('e', A(S(C('e'), T('+'), C('t')), C('t'))), ('t', T('x'))],
    # a growth iteration that FAILS outright (no shorter alternative to fall back to): the seed grown so far is the result; no $, so that the longest
    # admitted prefix is what the start rule returns
    'optrec_noeof': [('start', C('e')), ('e', S(OPT(S(C('e'), T('+'))), C('t'))), ('t', T('x'))],
    'cut_noeof': [('start', C('e')), ('e', A(S(C('e'), T('+'), ('cut',), C('t')), C('t'))), ('t', T('x'))],
    'leftrec_start': [('start', A(S(C('start'), T('+'), T('x')), T('x')))],
    'three_cycle': [('start', S(C('a'), EOF_)), ('a', A(S(C('b'), T('+')), T('x'))), ('b', A(S(C('c'), T('*')), T('x'))),
                    ('c', A(S(C('a'), T('-')), T('x')))],
    'two_leftrec_rules': [('start', S(C('e'), EOF_)), ('e', A(S(C('e'), T('+'), C('m')), C('m'))), ('m', A(S(C('m'), T('*'), T('x')), T('x')))],
    'prefix_unary': [('start', S(C('e'), EOF_)), ('e', A(S(C('e'), T('-'), C('u')), C('u'))), ('u', A(S(T('-'), C('u')), T('x')))],
    'cut_in_leftrec': [('start', S(C('e'), EOF_)), ('e', A(S(C('e'), T('+'), ('cut',), C('t')), C('t'))), ('t', A(T('x'), S(T('('), ('cut',), C('e'), T(')'))))],
    # two cycles through a hub rule that is not the alphabetically smallest rule of the component
    'hub': [('start', S(C('p'), EOF_)), ('a', S(C('p'), T('.'), T('x'))), ('p', A(C('a'), C('i'), T('x'))), ('i', S(C('p'), T('['), T('x'), T(']')))],
    'postfix_and_binary': [('start', S(C('e'), EOF_)), ('e', A(S(C('e'), T('+'), C('p')), C('p'))), ('p', A(S(C('p'), T('*')), T('x')))],
}
QUICK = ['optrec_noeof', 'cut_noeof', 'direct', 'two_ops', 'aliased', 'mutual', 'optprefix', 'named', 'rightrec', 'noeof', 'leftrec_start', 'three_cycle', 'cut_in_leftrec', 'hub']
SETTINGS = {'nameguard': False, 'whitespace': ''}
REFSET = {'nameguard': False, 'whitespace': None}
WARM = ['', 'x', 'x.x', 'x[x]', 'x.x.x', 'x[x', 'x+x', '(x)', 'x+', '+x', '(x', 'x+x+x', '((x))', 'x*x', '-x', 'x-x', 'x+*', 'x*+', 'x+x*x', 'xx', 'x+-x', 'x*', 'x+x*']
BUDGET = {0: 40, 1: 40, 2: 60, 3: 200, 4: 900, 5: 2400, 6: 3600}


def alphabet_pre(n, chars):
    """restrict each code point to the grammar's alphabet plus one other character (stated: no longer all of Unicode)"""
    cs = sorted({ord(c) for c in chars} | {ord('q')})
    return ' and '.join('(' + ' or '.join(f'c{i} == {c}' for c in cs) + ')' for i in range(n))


def plan(tier, seed):
    names = QUICK if tier == 'quick' else list(GRAMMARS)
    obs = []
    for nm in names:
        rs = GRAMMARS[nm]
        lengths = [0, 1, 2, 3] + ([4] if nm in ('direct', 'mutual', 'two_ops', 'named') or tier != 'quick' else [])
        for n in lengths:
            spec = {'grammar': nm, 'rules': rs, 'n': n, 'settings': SETTINGS, 'ref': REFSET, 'gen': True, 'warm': WARM}
            obs.append(Ob(name=f'{nm}_L{n}', factory='vt.pegbody:make_peg', spec=spec, params=[(f'c{i}', 0, UNI) for i in range(n)],
                          budget=BUDGET[n], group=nm, require_tags=('ok',) if n in (1, 3) and nm not in ('mutual', 'three_cycle') else ()))
        if tier != 'quick':
            for n in (5, 6):
                spec = {'grammar': nm, 'rules': rs, 'n': n, 'settings': SETTINGS, 'ref': REFSET, 'gen': True, 'warm': WARM, 'alphabet': 'x+*-()'}
                obs.append(Ob(name=f'{nm}_alpha_L{n}', factory='vt.pegbody:make_peg', spec=spec, params=[(f'c{i}', 0, UNI) for i in range(n)],
                              extra_pre=alphabet_pre(n, 'x+*-()'), budget=BUDGET[n], group=nm))
    # left association as a closed form: chains x (op x)^k with symbolic operators
    for k in (1, 2, 3) if tier == 'quick' else (1, 2, 3, 4, 5):
        for nm in ('two_ops', 'direct', 'named', 'two_leftrec_rules', 'aliased'):
            obs.append(Ob(name=f'assoc_{nm}_k{k}', factory='vt.props.c03:make_assoc', spec={'grammar': nm, 'k': k},
                          params=[(f'o{i}', 0, 3) for i in range(k)], budget=120, group='assoc', require_tags=('ok',)))
    return {
        'obligations': obs,
        'level': 'other',
        'programs': len(names),
        'explanation': 'Layered expression grammars with direct, aliased, mutual, three-rule, optional-prefixed, named and start-rule left recursion '
                       '(mixed with right recursion, unary prefixes, cuts): for every text of n symbolic code points the real model, the parser '
                       'generated from it and the reference evaluator (Warth seed growing) agree on outcome, end position and AST; every path '
                       'terminates (RecursionError or a per-path cap is a violation / reported). Left association is also checked in closed form: '
                       'chains x (op x)^k with symbolic operators give the left fold.',
        'functions_encoded': C01_FUNCS + ['tatsu.contexts.engine:ParserEngine.recursive_call/save_result/set_left_recursion_guard/clear_recursion_errors',
                                         'tatsu.peg.leftrec.pegen:mark_left_recursion (run concretely at compile)', 'tatsu.ngcodegen.ngparser_gen (generated source executed symbolically)',
                                         'tatsu.contexts.decorator.rule:rule/leftrec/nomemo decorators'],
        'bounds': f'{len(names)} grammars; text length 0..3 (0..4 for four of them; thorough 0..4 over all of Unicode and 5..6 over the alphabet '
                  'x+*-() plus one other character); operator chains up to k=3 (quick) / 5 (thorough); whitespace "", nameguard off',
        'outside': 'longer texts; left recursion hidden behind nullable rules (excluded by the statement); other grammar shapes',
        'assumptions': ['vt/refpeg.py seed growing = the statement\'s "growing the recursion seed until it stops advancing"'],
    }


def make_assoc(spec):
    """x (op x)^k with symbolic operator choices -> the AST is the left fold over the operators of one precedence level."""
    import tatsu
    from ..pegbody import Engine, GenParser, norm, rules_of
    from ..refpeg import render_grammar
    nm = spec['grammar']
    rules = GRAMMARS[nm]
    gtext = render_grammar(rules)
    eng = Engine(gtext, SETTINGS)
    gen = GenParser(gtext, SETTINGS)
    ops = {'two_ops': ['+', '-', '*'], 'direct': ['+', '+', '+'], 'named': ['+', '+', '+'], 'two_leftrec_rules': ['+', '*', '+'], 'aliased': ['+', '+', '+']}[nm]
    k = spec['k']

    def fold(chain):
        """reference: precedence climbing with left association: '*' binds tighter than '+'/'-'"""
        # chain: ['x', op, 'x', op, 'x'...]
        def product(i):
            v = 'x'
            while i + 1 < len(chain) and chain[i + 1] == '*':
                v = [v, '*', 'x']
                i += 2
            return v, i
        v, i = product(0)
        while i + 1 < len(chain):
            op = chain[i + 1]
            r, j = product(i + 2)
            if nm == 'named':
                v = {'l': v, 'op': op, 'r': r}
            else:
                v = [v, op, r]
            i = j
        return v

    def body(args):
        chain = ['x']
        for o in args:
            # one comparison per operator choice (class test, not a hash)
            op = ops[0] if o == 0 else (ops[1] if o == 1 else ops[2])
            chain += [op, 'x']
        text = ''.join(chain)
        try:
            real = eng.parse(text)
            other = gen.parse(text)
        except RecursionError:
            return False, 'recursion', None
        except Exception as e:  # noqa: BLE001
            return False, 'exception', repr(e)[:100]
        if real[0] != 'ok' or other[0] != 'ok':
            return False, 'rejected', [real[0], other[0]]
        want = fold(chain)
        got = norm(real[1])
        if not (got == want):
            return False, 'not-left-fold', [repr(got)[:200], repr(want)[:200]]
        if not (norm(other[1]) == want):
            return False, 'gen-not-left-fold', [repr(norm(other[1]))[:200]]
        return True, 'ok', [len(chain)]

    def explain(args):
        chain = ['x']
        for o in args:
            chain += [ops[o], 'x']
        text = ''.join(chain)
        return f'grammar:\n{gtext}text={text!r}\nmodel={eng.parse(text)!r}\ngenerated={gen.parse(text)!r}\nleft fold={fold(chain)!r}'

    body.explain = explain
    body.warm = [tuple([0] * k), tuple([1] * k), tuple([2] * k)]
    return body
