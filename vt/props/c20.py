"""C20 — styling text never alters the text itself."""
from __future__ import annotations

from ..harness import _tracing, mktext
from ..runner import Ob

UNI = 0x110000
MODS = ['bold', 'dim', 'italic', 'underline', 'blink', 'inverse', 'hidden', 'strikethrough']
FMTS = [None, '>5', '<4', '^6', '.1', '*^7', '3', '>2.1', 's', '']
TEXTS = ['hello', 'a', 'x y', 'héllo', '日本', 'é', 'tab\there'.replace('\t', ' '), 'UPPER', '123', 'a-b_c']


def _style(spec, args, color):
    """build the style from the obligation's attribute group; returns (style, text args)"""
    from tatsu.ztyle.style import RGB, Style
    grp = spec['group']
    kw = {}
    if grp == 'mods':
        for i, m in enumerate(MODS):
            kw[m] = True if args[i] else False
        rest = args[8:]
    elif grp == 'fg':
        kw['fg'] = args[0]
        rest = args[1:]
    elif grp == 'bg':
        kw['bg'] = args[0]
        kw['bold'] = True
        rest = args[1:]
    elif grp == 'fgbg':
        kw['fg'] = args[0]
        kw['bg'] = args[1]
        rest = args[2:]
    elif grp == 'rgb':
        kw['fg'] = RGB(args[0], 7, 300)
        kw['bg'] = RGB(0, args[1], 128)
        rest = args[2:]
    else:
        rest = args
    return Style(spec.get('value', 'v'), color=color, **kw), rest


def make_apply(spec):
    """A: escape transparency of Style.apply / apply_style for symbolic attributes and symbolic text."""
    from tatsu.util.tty import descape, visual_len
    from tatsu.ztyle.style import Color
    fmt = spec.get('fmt')
    ntext = spec['ntext']

    def body(args):
        try:
            st, rest = _style(spec, args, Color.always())
            text = mktext(rest)
            if '\x1b' in text:
                return True, 'triv:has-esc', None
            if not text:
                return True, 'triv:empty', None
            want = format(text, fmt) if fmt else text
            out = st.apply(text, fmt) if fmt else st.apply(text)
            if not (descape(out) == want):
                return False, 'descape', None
            if not (visual_len(out) == len(want)):
                return False, 'visual_len', None
            plain, _ = _style(spec, args, Color.never())
            out2 = plain.apply(text, fmt) if fmt else plain.apply(text)
            if not (out2 == want) or '\x1b' in out2:
                return False, 'disabled-not-plain', None
            forced = st.apply_style(text, force=True)
            if not (descape(forced) == text):
                return False, 'forced', None
        except Exception as e:  # noqa: BLE001
            return False, 'exception', type(e).__name__ + ': ' + str(e)[:80]
        return True, ('styled' if out != want else 'unstyled'), None

    grp = spec['group']
    nattr = {'mods': 8, 'fg': 1, 'bg': 1, 'fgbg': 2, 'rgb': 2, 'none': 0}[grp]
    body.explain = lambda args: f'group={grp} attrs={list(args[:nattr])} text={mktext(args[nattr:])!r} fmt={fmt!r}'
    body.warm = [tuple([1] * nattr + [ord('a')] * ntext), tuple([0] * nattr + [ord('{')] * ntext)]
    # texts with a combining mark / a wide character (unicodedata is a C boundary: a symbolic code point is realised there to an arbitrary value, so these classes are given natively; seed C20-6)
    body.warm += [tuple([1] * nattr + ([0x301, ord('e'), 0x65e5] * ntext)[:ntext]), tuple([0] * nattr + ([0x65e5, 0x301, ord('e')] * ntext)[:ntext])]
    return body


def make_env(spec):
    """A': colour policy from the environment (os.environ and isatty stubbed; selectors symbolic)."""
    import os
    import sys
    from tatsu.ztyle.style import Color, Style

    class FakeOut:
        def __init__(self, tty):
            self._tty = tty

        def isatty(self):
            return self._tty

        def write(self, s):
            return len(s)

        def flush(self):
            pass

    def body(args):
        force, nocolor, forcecolor, tty = args   # force: 0 none, 1 True, 2 False
        env = {}
        if nocolor:
            env['NO_COLOR'] = '1' if nocolor == 1 else ''
        if forcecolor:
            env['FORCE_COLOR'] = '1'
        real_env, real_out = os.environ, sys.stdout
        try:
            os.environ = env          # stub
            sys.stdout = FakeOut(bool(tty))
            c = Color(None if force == 0 else (force == 1))
            out = Style('v', bold=True, fg=2, color=c).apply('text')
        except Exception as e:  # noqa: BLE001
            return False, 'exception', repr(e)[:80]
        finally:
            os.environ, sys.stdout = real_env, real_out
        if force == 1:
            want = True
        elif force == 2:
            want = False
        elif nocolor:
            want = False
        elif forcecolor:
            want = True
        else:
            want = bool(tty)
        has = '\x1b' in out
        if has != want:
            return False, 'policy', [has, want]
        if not has and out != 'text':
            return False, 'disabled-not-plain', None
        return True, 'colour' if has else 'plain', None

    body.warm = [(0, 0, 0, 0), (1, 1, 1, 1)]
    return body


def make_stored_fmt(spec):
    """a format spec STORED on the style (.fmt(spec) / fmt= / style(text, fmt=...)) under every colour policy: str(), len() and f-string-free
    rendering give the formatted text (plain when colour is off)"""
    from tatsu.util.tty import descape
    from tatsu.ztyle.style import Color, Style
    specs = ['>5', '<4', '^6', '.1', '*^7', '3']
    texts = ['x', 'hello', 'a{b', 'é日']

    def native(sel):
        pol, how, si, ti, bold = sel
        color = [Color.always, Color.never, lambda: Color(enable=False), lambda: Color(enable=True)][pol]()
        spec_, t = specs[si], texts[ti]
        base = Style(t, bold=bool(bold), fg=2, color=color)
        st = [lambda: base.fmt(spec_), lambda: Style(t, fmt=spec_, bold=bool(bold), fg=2, color=color), lambda: base(t, fmt=spec_)][how]()
        want = format(t, spec_)
        try:
            out = str(st)
            n = len(st)
        except Exception as e:  # noqa: BLE001
            return False, 'exception', type(e).__name__ + ': ' + str(e)[:80]
        if descape(out) != want:
            return False, 'stored-spec-not-applied', [pol, how, spec_, t, out, want]
        if n != len(want):
            return False, 'visible-length', [pol, how, spec_, t, n, len(want)]
        if pol in (1, 2) and out != want:
            return False, 'disabled-not-plain', [out, want]
        return True, 'colour' if pol in (0, 3) else 'plain', None

    cache = {}

    def body(args):
        if _tracing():
            lim = [4, 3, len(specs), len(texts), 2]
            sel = []
            for a, hi in zip(args, lim):
                v = 0
                for i in range(hi):
                    if a == i:
                        v = i
                sel.append(v)
            from crosshair.tracers import NoTracing
            with NoTracing():
                cache.clear()
                cache[tuple(sel)] = r = native(sel)
                return r
        return cache.get(tuple(args)) or native(list(args))

    body.warm = [(0, 0, 0, 0, 0), (1, 1, 1, 1, 1)]
    return body


def make_repr(spec):
    """B: Style.from_raw(repr(s)) has the same attributes (symbolic attribute values) and the same text (concrete texts)."""
    from tatsu.ztyle.style import Color, Style
    texts = spec['texts']

    def attrs(s):
        return [s._fg if not isinstance(s._fg, tuple) else list(s._fg), s._bg if not isinstance(s._bg, tuple) else list(s._bg)] + [bool(getattr(s, '_' + m)) for m in MODS]

    def body(args):
        try:
            for t in texts:
                sp = dict(spec)
                sp['value'] = t
                s, _ = _style(sp, args, Color.always())
                for f in (None, '>8'):
                    s2 = s.fmt(f) if f else s
                    back = Style.from_raw(repr(s2))
                    if attrs(back) != attrs(s2):
                        return False, 'attributes', [t, attrs(s2), attrs(back)]
                    if back.value != t:
                        return False, 'text', [t, back.value]
                    if back._fmt != s2._fmt:
                        return False, 'fmt', [t, s2._fmt, back._fmt]
        except Exception as e:  # noqa: BLE001
            return False, 'exception', type(e).__name__ + ': ' + str(e)[:80]
        return True, 'ok', None

    grp = spec['group']
    nattr = {'mods': 8, 'fg': 1, 'bg': 1, 'fgbg': 2, 'rgb': 2, 'none': 0}[grp]
    body.warm = [tuple([1] * nattr), tuple([0] * nattr)]
    return body


MARKUP_TAGS = ['bold', 'red', 'bold red', 'on_blue', 'italic underline', 'nosuchstyle', 'bright_green', 'dim']
MARKUP_CHARS = ['a', ' ', ']', '/', '\\', '日', 'e\u0301', '\x9b', '%', '{', ':', '\t', '~', 'K', '0', 'm', ';']


def make_markup(spec):
    """markup(): '[tags]TEXT[/] tail' with TEXT built from solver-selected representative characters (closing bracket, slash, backslash, wide, combining,
    C1 CSI, format and brace characters, SGR-looking letters and digits ...): removing the escape sequences from the styled result leaves exactly TEXT + tail,
    the visible length is its length, with colour disabled there is no escape sequence at all; '[[' is an escaped bracket"""
    from tatsu.util.tty import descape, visual_len
    from tatsu.ztyle.markup import markup
    from tatsu.ztyle.style import Color
    n = spec['n']

    def native(sel):
        tag = MARKUP_TAGS[sel[0]]
        text = ''.join(MARKUP_CHARS[i] for i in sel[1:1 + n])
        esc_seen = False
        for src, plain in ((f'[{tag}]{text}[/] tail', f'{text} tail'), (f'[[{text}[{tag}]x[/{tag.split()[-1]}]', f'[{text}x'), (f'{text}[{tag}][/]', text)):
            try:
                on = markup(src, color=Color.always())
                off = markup(src, color=Color.never())
                s_on, s_off = str(on), str(off)
            except Exception as e:  # noqa: BLE001
                return False, 'exception', [src, type(e).__name__ + ': ' + str(e)[:80]]
            esc_seen = esc_seen or '\x1b' in s_on
            if descape(s_on) != plain:
                return False, 'descape-differs', [src, descape(s_on), plain]
            if on.value != plain:
                return False, 'value-differs', [src, on.value, plain]
            if '\x1b' in s_off or s_off != plain:
                return False, 'disabled-colour-output', [src, s_off, plain]
            if visual_len(s_on) != visual_len(plain):
                return False, 'visual-length', [src, visual_len(s_on), visual_len(plain)]
        return True, 'styled' if esc_seen else 'plain', None

    cache = {}

    def pick(a, hi):
        v = 0
        for i in range(hi):
            if a == i:
                v = i
        return v

    def body(args):
        if _tracing():
            sel = tuple([pick(args[0], len(MARKUP_TAGS))] + [pick(a, len(MARKUP_CHARS)) for a in args[1:]])
            from crosshair.tracers import NoTracing
            with NoTracing():
                cache.clear()
                cache[sel] = r = native(sel)
                return r
        return cache.get(tuple(args)) or native(tuple(args))

    body.explain = lambda args: repr(native(tuple(args)))
    body.warm = [tuple([0] * (n + 1)), tuple([1] + [2] * n)]
    return body


def plan(tier, seed):
    obs = []
    nt = 2 if tier == 'quick' else 3

    def text_params(n):
        return [(f'c{i}', 0, UNI) for i in range(n)]
    obs.append(Ob(name='A_none', factory='vt.props.c20:make_apply', spec={'group': 'none', 'ntext': nt + 1}, params=text_params(nt + 1), budget=120, group='A'))
    obs.append(Ob(name='A_mods', factory='vt.props.c20:make_apply', spec={'group': 'mods', 'ntext': nt}, params=[(m, 0, 2) for m in MODS] + text_params(nt), budget=900, group='A',
                  require_tags=('styled',)))
    obs.append(Ob(name='A_fg', factory='vt.props.c20:make_apply', spec={'group': 'fg', 'ntext': nt}, params=[('fg', -2, 258)] + text_params(nt), budget=900, group='A', require_tags=('styled',)))
    obs.append(Ob(name='A_bg', factory='vt.props.c20:make_apply', spec={'group': 'bg', 'ntext': nt}, params=[('bg', -2, 258)] + text_params(nt), budget=900, group='A', require_tags=('styled',)))
    edge = '(r < 3 or r > 252) and (g < 252 or g > 256)' if tier == 'quick' else 'True'
    obs.append(Ob(name='A_rgb', factory='vt.props.c20:make_apply', spec={'group': 'rgb', 'ntext': 1}, params=[('r', -3, 259), ('g', 250, 259)] + text_params(1), budget=900 if tier == 'quick' else 3000,
                  group='A', extra_pre=edge))
    for i, f in enumerate(FMTS[1:]):
        if tier == 'quick' and i >= 4:
            break
        obs.append(Ob(name=f'A_fmt{i}', factory='vt.props.c20:make_apply', spec={'group': 'fg', 'ntext': 2, 'fmt': f}, params=[('fg', 0, 3)] + text_params(2), budget=90 if tier == 'quick' else 600, group='A-fmt'))
    obs.append(Ob(name='A_env_policy', factory='vt.props.c20:make_env', spec={}, params=[('force', 0, 3), ('nocolor', 0, 3), ('forcecolor', 0, 2), ('tty', 0, 2)], budget=200, group='A',
                  require_tags=('colour', 'plain')))
    obs.append(Ob(name='A_stored_fmt', factory='vt.props.c20:make_stored_fmt', spec={}, params=[('policy', 0, 4), ('how', 0, 3), ('spec', 0, 6), ('text', 0, 4), ('bold', 0, 2)],
                  budget=600, group='A', require_tags=('colour', 'plain')))
    obs.append(Ob(name='B_repr_mods', factory='vt.props.c20:make_repr', spec={'group': 'mods', 'texts': TEXTS[:4]}, params=[(m, 0, 2) for m in MODS], budget=900, group='B'))
    obs.append(Ob(name='B_repr_fg', factory='vt.props.c20:make_repr', spec={'group': 'fg', 'texts': TEXTS}, params=[('fg', -2, 258)], budget=900, group='B'))
    obs.append(Ob(name='B_repr_bg', factory='vt.props.c20:make_repr', spec={'group': 'bg', 'texts': TEXTS[:3]}, params=[('bg', -2, 258)], budget=900, group='B'))
    obs.append(Ob(name='B_repr_rgb', factory='vt.props.c20:make_repr', spec={'group': 'rgb', 'texts': TEXTS[:2]}, params=[('r', -3, 259), ('g', 250, 259)], budget=1200 if tier == 'quick' else 3000,
                  group='B', extra_pre=edge))
    for n in ((1, 2) if tier == 'quick' else (1, 2, 3)):
        obs.append(Ob(name=f'M_markup_{n}', factory='vt.props.c20:make_markup', spec={'n': n, 'program': 'markup'},
                      params=[('tag', 0, len(MARKUP_TAGS))] + [(f'k{i}', 0, len(MARKUP_CHARS)) for i in range(n)], budget=600 if n < 3 else 3000, group='markup', require_tags=('styled',)))
    if tier != 'quick':
        obs.append(Ob(name='B_repr_fgbg', factory='vt.props.c20:make_repr', spec={'group': 'fgbg', 'texts': TEXTS[:2]}, params=[('fg', -1, 256), ('bg', -1, 256)], budget=3600, group='B'))
    return {
        'obligations': obs,
        'level': 'other',
        'explanation': 'A: Style.apply/apply_style on styles whose attributes are symbolic (8 modifier booleans; fg/bg over -2..257 incl. the clamped and unset values; '
                       'RGB components incl. out-of-range) and on symbolic text without ESC: stripping escape sequences gives exactly the (formatted) text, the visual '
                       'length is its length, and with colour disabled the output is the plain text; the colour policy (explicit / NO_COLOR / FORCE_COLOR / isatty) is '
                       'checked with os.environ and sys.stdout stubbed and symbolic selectors. Format specs are a concrete list (format() is a C boundary that realises '
                       'the text: those obligations are concolic and reported as unexhausted unless they exhaust). B: Style.from_raw(repr(s)) keeps every attribute for '
                       'symbolic attribute values (integers realised one by one by the solver) and the text for a concrete list of texts.',
        'functions_encoded': ['tatsu.ztyle.markup:markup/tokenize/apply_style_stack/StyleZ (selector-chosen texts, native per path)', 'tatsu.ztyle.style:Style.__init__/_set_fg/_set_bg/apply/apply_style/__repr__/from_raw/parse_fmt/fmt', 'tatsu.ztyle.style:Color.enabled/is_terminal', 'tatsu.ztyle.style:RGB.__new__',
                              'tatsu.util.tty:descape/visual_len/tty_escape/tty_unescape/ANSI_RE/SGR_RE'],
        'bounds': f'text of {nt}..{nt + 1} symbolic code points (all Unicode except ESC); fg/bg -2..257; RGB component -3..258 (quick: the 12 values at both ends of the range); 256 modifier combinations; {4 if tier == "quick" else len(FMTS) - 1} format specs; {len(TEXTS)} concrete texts for the repr round trip',
        'outside': 'longer texts; display width of wide/combining characters (visual_len counts code points, as the statement does); the text of a Style object itself is concrete (Style is a C-level str subclass); '
                   'texts with braces/colons/backslashes/quotes/control characters in the repr round trip (excluded by the statement)',
        'assumptions': ['stubs: os.environ replaced by a dict, sys.stdout by an object with isatty()', 'str.format is trusted'],
    }
