META = {
    'level': 'other',
    'text': 'Bounded symbolic verification of the text codecs (every string up to the bound) plus solver-chosen payload characters, drain schedules, truncation '
            'offsets and clock steps for pack/unpack and the file queue, each path executed against the real code with real files. Loss or duplication depends on '
            'exact payload characters (a literal ~a1~), on where a partial write ends and on clock values, all of which are solver variables here.',
    'note': 'Trusted: json and hashlib (C level); the plugin\'s back-reference extension of CrossHair\'s regex model (validated per path natively); the clock stub. '
            'Known findings F6/F17/F18/F19 are identified by payload predicate (see known_findings.json).',
    'technique': 'symbolic execution (CrossHair/z3, plugin back-reference model) of the codec kernels on symbolic text; solver-chosen payload characters, truncation offsets, drain schedules and clock steps for pack/unpack and the file queue, executed natively with real files',
}
