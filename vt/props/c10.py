"""C10 — API results depend only on the arguments, not on earlier calls (sequential histories, non-mutation, and context-bounded thread schedules)."""
from __future__ import annotations

import json

from ..harness import _tracing, mktext
from ..known import tolerated
from ..runner import Ob

UNI = 0x110000

G1 = "start::Top: x=item y=[item] $ ;\nitem::Item: /[ab]/ ;\n"
G2 = "start: 'a' 'B' $ ;\n"
G3 = "start: e $ ;\ne: e '+' t | t ;\nt: /[0-9]/ ;\n"
BATTERY = ['a', 'a b', 'A', 'a B', 'ab', '1+2', '', 'aB', '!']      # (ends with a text every grammar of the pool rejects: the last call of each battery fails)


class SemA:
    def item(self, ast):
        return ('A', ast)


class SemB:
    def item(self, ast):
        return ('B', ast)


def observe(model_or_parse):
    """result classes on the battery: outcome, shape and node type names"""
    from tatsu.exceptions import ParseException

    def shape(v):
        if isinstance(v, dict):
            return {k: shape(x) for k, x in v.items() if k != 'parseinfo'}
        if isinstance(v, (list, tuple)):
            return [shape(x) for x in v]
        if isinstance(v, (str, int, float)) or v is None:
            return v
        return [type(v).__name__, shape({k: x for k, x in vars(v).items() if not k.startswith('_') and k not in ('ctx', 'parseinfo')})]
    out = []
    for t in BATTERY:
        try:
            out.append(['ok', shape(model_or_parse(t))])
        except ParseException as e:
            out.append(['fail', type(e).__name__])
        except Exception as e:  # noqa: BLE001
            out.append(['exception', type(e).__name__])
    return out


def call_pool():
    """name -> zero-argument callable returning a JSON-able observable; every call goes through the public API"""
    import hashlib
    import tatsu
    sa, sb = SemA(), SemB()
    shared = {}

    def shared_gen():
        # ONE generated-parser object and ONE model object reused by every call of the history
        if 'gen' not in shared:
            shared['gen'] = _gen(G1)
        return shared['gen']

    def shared_model():
        if 'model' not in shared:
            shared['model'] = tatsu.compile(G1, name='Shared')
        return shared['model']
    pool = {
        'sharedgen_plain': lambda: observe(shared_gen().parse),
        'sharedgen_start_item': lambda: observe(lambda t: shared_gen().parse(t, start='item')),
        'sharedgen_nows_ignorecase': lambda: observe(lambda t: shared_gen().parse(t, whitespace='', ignorecase=True)),
        'sharedgen_semA': lambda: observe(lambda t: shared_gen().parse(t, semantics=sa)),
        'sharedgen_semB': lambda: observe(lambda t: shared_gen().parse(t, semantics=sb)),
        'sharedgen_asmodel': lambda: observe(lambda t: shared_gen().parse(t, asmodel=True)),
        'sharedmodel_plain': lambda: observe(shared_model().parse),
        'sharedmodel_start_item_parseinfo': lambda: observe(lambda t: shared_model().parse(t, start='item', parseinfo=True)),
        'compile_g1': lambda: observe(tatsu.compile(G1).parse),
        'compile_g1_asmodel': lambda: observe(tatsu.compile(G1, asmodel=True).parse),
        'compile_g1_semA': lambda: observe(tatsu.compile(G1, semantics=sa).parse),
        'compile_g1_semB': lambda: observe(tatsu.compile(G1, semantics=sb).parse),
        'compile_g1_named': lambda: observe(tatsu.compile(G1, name='Other').parse),
        'compile_g2': lambda: observe(tatsu.compile(G2).parse),
        'compile_g2_ignorecase': lambda: observe(tatsu.compile(G2, ignorecase=True).parse),
        'compile_g2_noguard': lambda: observe(tatsu.compile(G2, nameguard=False).parse),
        'parse_g2_ignorecase': lambda: observe(lambda t: tatsu.parse(G2, t, ignorecase=True)),
        'model_parse_start_item': lambda: observe(lambda t: tatsu.compile(G1).parse(t, start='item')),
        'compile_g3': lambda: observe(tatsu.compile(G3).parse),
        'source_g1': lambda: hashlib.sha1(tatsu.to_python_sourcecode(G1, name='P').encode()).hexdigest()[:12],
        'generated_g2': lambda: observe(_gen(G2).parse),
        'failed_then_good_g3': lambda: (lambda m: [observe(m.parse), observe(m.parse)])(tatsu.compile(G3)),
    }
    return pool


def _gen(g):
    import tatsu
    ns: dict = {}
    exec(compile(tatsu.to_python_sourcecode(g, name='H'), '<gen>', 'exec'), ns)  # noqa: S102
    return ns['HParser']()


POOL_NAMES = ['sharedgen_plain', 'sharedgen_start_item', 'sharedgen_nows_ignorecase', 'sharedgen_semA', 'sharedgen_semB', 'sharedgen_asmodel', 'sharedmodel_plain', 'sharedmodel_start_item_parseinfo', 'compile_g1', 'compile_g1_asmodel', 'compile_g1_semA', 'compile_g1_semB', 'compile_g1_named', 'compile_g2', 'compile_g2_ignorecase', 'compile_g2_noguard',
              'parse_g2_ignorecase', 'model_parse_start_item', 'compile_g3', 'source_g1', 'generated_g2', 'failed_then_good_g3']


def fresh_observables():
    """every call of the pool evaluated alone in a fresh interpreter: the history-free oracle"""
    import subprocess
    from ..runner import PY, env_for_children
    out = {}
    code = "import sys, json\nfrom vt.props.c10 import call_pool\nprint('OBS ' + json.dumps(call_pool()[sys.argv[1]](), default=repr))\n"
    for nm in POOL_NAMES:
        p = subprocess.run([PY, '-c', code, nm], env=env_for_children(), stdout=subprocess.PIPE, stderr=subprocess.PIPE, text=True, timeout=120)
        line = [ln for ln in p.stdout.splitlines() if ln.startswith('OBS ')]
        out[nm] = json.loads(line[-1][4:]) if line else ['fresh-run-failed', p.stderr[-200:]]
    return out


def make_history(spec):
    k = spec['k']
    known = tolerated('C10')
    fresh = fresh_observables()

    def classify(history, probe, got, want):
        # F8, precisely: compile(G1, asmodel=True) installs model-building semantics on the cached model object for the key (name, hash, id(None));
        # a later plain compile(G1) returns that same object and does not reset them.  Nothing else is tolerated.
        if 'F8' not in known or 'compile_g1_asmodel' not in history:
            return None
        if probe == 'compile_g1' and got == fresh['compile_g1_asmodel']:
            return 'F8'
        if probe == 'model_parse_start_item' and got == [(['ok', ['Item', {'ast': w[1]}]] if w[0] == 'ok' else w) for w in want]:
            return 'F8'
        return None

    def native(sel):
        # every history runs in its own interpreter: process-wide caches must not leak from one explored history into the next
        import subprocess
        from ..runner import PY, env_for_children
        history = [POOL_NAMES[i] for i in sel[:-1]]
        probe = POOL_NAMES[sel[-1]]
        code = ("import sys, json\nfrom vt.props.c10 import call_pool\npool = call_pool()\nnames = sys.argv[1:]\n"
                "for h in names[:-1]:\n    try:\n        pool[h]()\n    except Exception:\n        pass\n"
                "try:\n    got = pool[names[-1]]()\nexcept Exception as e:\n    got = ['raised', type(e).__name__]\n"
                "print('OBS ' + json.dumps(got, default=repr))\n")
        p = subprocess.run([PY, '-c', code, *history, probe], env=env_for_children(), stdout=subprocess.PIPE, stderr=subprocess.PIPE, text=True, timeout=300)
        line = [ln for ln in p.stdout.splitlines() if ln.startswith('OBS ')]
        got = json.loads(line[-1][4:]) if line else ['history-run-failed', p.stderr[-200:]]
        want = fresh[probe]
        if got == want:
            return True, 'same-as-fresh', None
        kf = classify(history, probe, got, want)
        if kf:
            return True, 'known:' + kf, [history, probe]
        return False, 'history-dependent', [history, probe, repr(got)[:150], repr(want)[:150]]

    cache = {}

    def body(args):
        if _tracing():
            sel = []
            for a in args:
                v = 0
                for i in range(len(POOL_NAMES)):
                    if a == i:
                        v = i
                sel.append(v)
            from crosshair.tracers import NoTracing
            with NoTracing():
                cache.clear()
                cache[tuple(sel)] = r = native(sel)
                return r
        return cache.get(tuple(args)) or native(list(args))

    body.explain = lambda args: repr(native(list(args)))
    body.warm = [tuple([0] * (k + 1)), tuple([1] * k + [0])]
    return body


def make_nomutation(spec):
    """a parse (successful or failed) of a symbolic text never alters the grammar model or its configuration"""
    import tatsu
    from tatsu.exceptions import ParseException
    g = {'G1': G1, 'G2': G2, 'G3': G3}[spec['grammar']]
    model = tatsu.compile(g, name='NM' + spec['grammar'])
    settings = spec.get('settings', {})

    def fingerprint():
        cfg = model.config
        return [model.pretty(), repr(sorted((k, repr(v)) for k, v in vars(cfg).items() if not k.startswith('_'))), [(r.name, r.is_lrec, r.is_memo) for r in model.rules],
                repr(model.keywords), repr(sorted(model.directives.items()))]

    before = fingerprint()

    def body(args):
        t = mktext(args)
        try:
            model.parse(t, **settings)
            tag = 'ok'
        except ParseException:
            tag = 'fail'
        except Exception as e:  # noqa: BLE001
            return False, 'exception', type(e).__name__ + ': ' + str(e)[:80]
        after = fingerprint()
        if after != before:
            return False, 'model-or-config-altered', [a for a, b in zip(after, before) if a != b][:1]
        return True, tag, None

    n = spec['n']
    body.warm = [tuple(map(ord, w)) for w in ['', 'a', 'ab', 'a b', 'aB', '1+2', 'a B', '1'] if len(w) == n]
    return body


# ------------------------------------------------------------------------------------------------------------------------------------
# thread schedules: two real threads parse with ONE compiled model; a deterministic scheduler (vt/sched.py) preempts the first thread at
# its p-th switch point (call event, or call+line event, of code under the tatsu package), lets the second thread run to its end and then
# resumes the first.  p is a symbolic selector: the solver enumerates every switch point of the range.

THREAD_PAIRS = {
    # name: (grammar, (text, settings) for thread 0, (text, settings) for thread 1)
    'plain_ok_ok': ('G1', ('a b', {}), ('a', {})),
    'plain_ok_fail': ('G1', ('a b', {}), ('a !', {})),
    'semA_semB': ('G1', ('a b', {'semantics': 'A'}), ('b a', {'semantics': 'B'})),
    'ignorecase_vs_plain': ('G2', ('A b', {'ignorecase': True}), ('A b', {})),
    'nows_vs_plain': ('G2', ('a B', {'whitespace': ''}), ('a B', {})),
    'start_parseinfo_vs_plain': ('G1', ('b', {'start': 'item', 'parseinfo': True}), ('a b', {})),
    'asmodel_vs_plain': ('G1', ('a b', {'asmodel': True}), ('a b', {})),
    'leftrec_ok_fail': ('G3', ('1+2+3', {}), ('1+', {})),
    'noguard_vs_plain': ('G4', ('ab', {'nameguard': False}), ('ab', {})),
    # the same after a long history of semantic-action calls in the process (process-wide caches at their working size), line events inside the modules that own shared state
    'semA_semB_warm': ('G1', ('a b', {'semantics': 'A'}), ('b a', {'semantics': 'B'})),
    'generated_two_objects': ('G1gen', ('a b', {'semantics': 'A'}), ('a', {})),
    # concurrent COMPILATION: each thread compiles (tatsu.compile: bootstrap parser, compile cache, model initialisation) and then parses; switch points are
    # the call and line events inside the modules that own process-wide state (granularity 'only')
    'compile_compile': ('COMPILE2', ('a b', {}), ('A b', {'ignorecase': True})),
    'compile_same_key': ('COMPILE1', ('a b', {}), ('a !', {})),
}
G4 = "start: 'a' 'b' $ ;\n"


_BLOBS: dict = {}


def _thread_setup(pair, uniq, fast=False, who=0):
    """-> (thunks, third) on a model compiled under a name never used before (so that nothing about it is warm); fast: a cold copy of
    the compiled model obtained through pickle (taken before the model ever parsed) instead of another compilation"""
    import pickle
    import tatsu
    gname, (t0, s0), (t1, s1) = THREAD_PAIRS[pair]
    sems = {'A': SemA(), 'B': SemB()}

    def settings(s):
        return {k: (sems[v] if k == 'semantics' else v) for k, v in s.items()}
    if gname == 'G1gen':
        ns: dict = {}
        if 'gensrc' not in _BLOBS:
            _BLOBS['gensrc'] = compile(tatsu.to_python_sourcecode(G1, name='TH'), '<gen>', 'exec')
        exec(_BLOBS['gensrc'], ns)  # noqa: S102
        objs = [ns['THParser'](), ns['THParser']()]           # two parser objects of one generated class
        parse = [objs[0].parse, objs[1].parse]
        third = ns['THParser']().parse
    elif gname in ('COMPILE1', 'COMPILE2'):
        # different names and grammars (COMPILE2) or one (name, grammar) key for both threads (COMPILE1: check-then-insert on the compile cache)
        names = [f'THC{uniq}a', f'THC{uniq}b'] if gname == 'COMPILE2' else [f'THC{uniq}s'] * 2
        gs = [G1, G2] if gname == 'COMPILE2' else [G1, G1]

        def third_compile():
            # afterwards BOTH compilations are asked for again (the compile cache and whatever else remembers a compilation now answer)
            out = []
            # (the compilation of the thread that was NOT preempted first: a later request repairs what an earlier one reveals)
            for gi, ni, ti, si in ((gs[1], names[1], t1, s1), (gs[0], names[0], t0, s0))[::(1 if who == 0 else -1)]:
                try:
                    out.append(['ok', tatsu.compile(gi, name=ni).parse(ti, **settings(si))])
                except Exception as e:  # noqa: BLE001
                    out.append(['exc', type(e).__name__])
            return out
        return ([lambda: tatsu.compile(gs[0], name=names[0]).parse(t0, **settings(s0)), lambda: tatsu.compile(gs[1], name=names[1]).parse(t1, **settings(s1))],
                third_compile)
    else:
        g = {'G1': G1, 'G2': G2, 'G3': G3, 'G4': G4}[gname]
        if fast:
            if gname not in _BLOBS:
                _BLOBS[gname] = pickle.dumps(tatsu.compile(g, name=f'THB{gname}'))
            model = pickle.loads(_BLOBS[gname])
        else:
            model = tatsu.compile(g, name=f'TH{uniq}')
        parse = [model.parse, model.parse]
        third = model.parse
    return [lambda: parse[0](t0, **settings(s0)), lambda: parse[1](t1, **settings(s1))], (lambda: third(t0, **settings(s0)))


def _thread_shape(r):
    from tatsu.exceptions import ParseException

    def shape(v):
        if isinstance(v, dict):
            return {k: shape(x) for k, x in sorted(v.items()) if k != 'parseinfo'} | ({'parseinfo': [v['parseinfo'].rule, v['parseinfo'].pos, v['parseinfo'].endpos]} if v.get('parseinfo') is not None else {})
        if isinstance(v, (list, tuple)):
            return [shape(x) for x in v]
        if isinstance(v, (str, int, float)) or v is None:
            return v
        return [type(v).__name__, shape({k: x for k, x in vars(v).items() if not k.startswith('_') and k not in ('ctx', 'parseinfo')})]
    if r is None:
        return ['did-not-run']
    kind, v = r
    if kind == 'ok':
        return ['ok', shape(v)]
    if isinstance(v, ParseException):
        return ['fail', type(v).__name__, getattr(v, 'pos', None)]
    return ['exception', type(v).__name__, str(v)[:80]]


HOT_FILES = ('tatsu/util/typetools.py', 'tatsu/util/boundeddict.py', 'tatsu/objectmodel/synth.py', 'tatsu/api/api.py')
_WARMED = []
COMPILE_FILES = ('tatsu/api/api.py', 'tatsu/objectmodel/synth.py', 'tatsu/peg/base.py')


def _line_files(pair, gran='hot'):
    if pair.startswith('compile'):
        return COMPILE_FILES if gran == 'onlywide' else COMPILE_FILES[:1]
    return HOT_FILES


def _warm_history():
    """once per process: more than a thousand semantic-action calls have already been made (process-wide caches are full-grown, not cold)"""
    if _WARMED:
        return
    _WARMED.append(True)
    import tatsu
    m = tatsu.compile(G1, name='THWarm')
    sa = SemA()
    for _ in range(700):
        m.parse('a b', semantics=sa)


def thread_event_counts(pair, granularity):
    from ..sched import run_schedule
    if pair.endswith('_warm'):
        _warm_history()
    thunks, _ = _thread_setup(pair, 'cnt' + granularity)
    _, counts = run_schedule(thunks, [], granularity=granularity, line_files=_line_files(pair, granularity))
    return counts


def make_threads(spec):
    from ..sched import Deadlock, run_schedule
    pair = spec['pair']
    gran = spec.get('granularity', 'call')
    who = spec['who']                    # the thread that is preempted (it also starts)
    lo, hi = spec['lo'], spec['hi']
    serial = [0]

    if pair.endswith('_warm'):
        _warm_history()

    def reference():
        thunks, third = _thread_setup(pair, f'ref{who}_{lo}', who=who)
        out = []
        for th in thunks + [third]:
            try:
                out.append(('ok', th()))
            except Exception as e:  # noqa: BLE001
                out.append(('exc', e))
        return [_thread_shape(r) for r in out]
    ref = reference()

    def native(p, fast=True):
        serial[0] += 1
        thunks, third = _thread_setup(pair, f'{who}_{lo}_{serial[0]}', fast=False, who=who)
        try:
            results, counts = run_schedule(thunks, [(who, p)], granularity=gran, first=who, line_files=_line_files(pair, gran))
        except Deadlock as e:
            return False, 'deadlock', [p, str(e)]
        got = [_thread_shape(r) for r in results]
        try:
            got.append(_thread_shape(('ok', third())))
        except Exception as e:  # noqa: BLE001
            got.append(_thread_shape(('exc', e)))
        if got != ref:
            return False, 'schedule-dependent', [p, [g for g, r in zip(got, ref) if g != r][:1], [r for g, r in zip(got, ref) if g != r][:1]]
        return True, ('preempted' if 0 < p <= counts[who] else 'not-preempted'), None

    cache = {}

    def body(args):
        (a,) = args
        if _tracing():
            l, h = lo, hi - 1
            while l < h:                  # binary search: log2(range) solver decisions per path
                mid = (l + h) // 2
                if a <= mid:
                    h = mid
                else:
                    l = mid + 1
            from crosshair.tracers import NoTracing
            with NoTracing():
                cache.clear()
                cache[l] = r = native(l)
                return r
        r = cache.get(a) or native(a)
        import os
        if r[0] and os.environ.get('VT_REPLAY'):
            # replay in a fresh interpreter: the number of events before a given code location varies by a few units between processes
            # (hash-order dependent traversals, cache states), so the same point is tried again and then every switch point of the obligation's range (and 48 beyond each end); any failing schedule is a demonstration
            for q in [a] * 2 + list(range(max(0, lo - 48), hi + 48)):
                rr = native(q)
                if not rr[0]:
                    return rr
        return r

    body.explain = lambda args: f'pair={pair} preempted thread={who} at switch point {args[0]} ({gran} events): ' + repr(native(args[0], fast=False)) + f'\nsequential reference: {ref!r}'
    body.warm = [(lo,), (hi - 1,)]
    return body


def plan(tier, seed):
    obs = []
    k = 2 if tier == 'quick' else 3
    n = len(POOL_NAMES)
    # histories of k calls followed by the probed call; split by the first call(s) to bound each obligation
    if k == 2:
        # quick: every history of one call, and every history of two calls that starts with a call on a shared parser/model object or with a
        # model-building compile (the calls that leave state behind); thorough: every history of three calls
        for first in range(n):
            two = POOL_NAMES[first].startswith('shared') or 'asmodel' in POOL_NAMES[first]
            if two:
                obs.append(Ob(name=f'H2_after_{POOL_NAMES[first]}', factory='vt.props.c10:make_history', spec={'k': 2, 'program': POOL_NAMES[first]},
                              params=[('h0', first, first + 1), ('h1', 0, n), ('probe', 0, n)], budget=1200, group='history', require_tags=('same-as-fresh',)))
            else:
                obs.append(Ob(name=f'H1_after_{POOL_NAMES[first]}', factory='vt.props.c10:make_history', spec={'k': 1, 'program': POOL_NAMES[first]},
                              params=[('h0', first, first + 1), ('probe', 0, n)], budget=600, group='history', require_tags=('same-as-fresh',)))
    else:
        for first in range(n):
            for second in range(n):
                obs.append(Ob(name=f'H3_after_{POOL_NAMES[first]}__{POOL_NAMES[second]}', factory='vt.props.c10:make_history', spec={'k': 3, 'program': POOL_NAMES[first]},
                              params=[('h0', first, first + 1), ('h1', second, second + 1), ('h2', 0, n), ('probe', 0, n)], budget=1800, group='history'))
    for gname, settings in (('G1', {}), ('G2', {'ignorecase': True}), ('G3', {}), ('G1', {'parseinfo': True, 'trace': False})):
        for ln in ((2, 3) if tier == 'quick' else (2, 3, 4)):
            obs.append(Ob(name=f'N_nomutation_{gname}_{len(settings)}_L{ln}', factory='vt.props.c10:make_nomutation', spec={'grammar': gname, 'settings': settings, 'n': ln, 'program': gname},
                          params=[(f'c{i}', 0, UNI) for i in range(ln)], budget={2: 90, 3: 400, 4: 2000}[ln], group='nomutation'))
    # thread schedules (one preemption window at every switch point)
    if tier == 'quick':
        tplan = [('plain_ok_fail', 'call'), ('semA_semB_warm', 'hot'), ('ignorecase_vs_plain', 'call'), ('asmodel_vs_plain', 'call')]
    else:
        tplan = [(p, 'call') for p in THREAD_PAIRS if not p.endswith('_warm')] + [('semA_semB_warm', 'hot'), ('semA_semB_warm', 'line')] + [(p, 'line') for p in THREAD_PAIRS if not p.endswith('_warm')]
    tplan = [(p, g) for p, g in tplan if not p.startswith('compile')]
    tplan += [(p, 'only' if tier == 'quick' else 'onlywide') for p in THREAD_PAIRS if p.startswith('compile')]
    tpairs = sorted({p for p, _ in tplan})
    chunk = 320
    tcount = 0
    for pair, gran in tplan:
        counts = thread_event_counts(pair, gran)
        for who in (0, 1):
            top = counts[who] + 9
            width = chunk if gran != 'line' else 4 * chunk
            if gran == 'onlywide':
                width = 160
            if gran == 'line':
                top = min(top, width * 3)      # thorough, line granularity: the first 3840 line events of each thread (the rest is stated as outside)
            for lo in range(0, top, width):
                hi = min(top, lo + width)
                tcount += hi - lo
                obs.append(Ob(name=f'T_{gran}_{pair}_t{who}_{lo}', factory='vt.props.c10:make_threads', spec={'pair': pair, 'who': who, 'lo': lo, 'hi': hi, 'granularity': gran, 'program': 'threads:' + pair},
                              params=[('p', lo, hi)], budget=300 if gran != 'line' else 1500, group='threads', require_tags=(('preempted',) if lo + 40 < counts[who] else ())))
    return {
        'obligations': obs,
        'level': 'other',
        'programs': len(POOL_NAMES) + len(tpairs),
        'explanation': f'Histories: a pool of {len(POOL_NAMES)} public-API calls (compile / parse / model.parse / generated parser / to_python_sourcecode over 3 grammars with varying name, '
                       f'asmodel, semantics object, ignorecase, nameguard, start rule; a failed parse followed by a good one on the same model). A history is {k} solver-chosen '
                       'call(s) followed by a solver-chosen probed call, all in one process sharing the semantics objects; the observable of the probed call (outcome, shape and '
                       'node class names on a battery of texts; a hash for generated source) must equal the observable of the same call made alone in a FRESH interpreter '
                       '(computed in child processes). Non-mutation: the model\'s pretty text, configuration fields, rule flags, keywords and directives are fingerprinted before '
                       'and after a parse of n symbolic code points (symbolic execution, all texts). '
                       f'Thread schedules: two real threads parse with ONE compiled model (cold: never parsed with before) under a deterministic scheduler; the first thread is preempted at its '
                       f'p-th switch point (a call event of code under the tatsu package; line events too inside the modules that own process-wide state for the warm-history pair{"; every line event in the thorough tier" if tier != "quick" else ""}), the second thread runs to its end, the first resumes; p is a symbolic selector and the '
                       f'solver enumerates every switch point ({tcount} schedules over {len(tpairs)} pairs of parses that differ in text, outcome, semantics object, ignorecase, whitespace, '
                       'start rule, parseinfo, model building; plus two objects of one generated parser class; plus two threads that each COMPILE and then parse — two grammars under two names, and one (name, grammar) key for both — preempted at the lines of the modules that own the compile cache and the class registry). Both results and a third parse afterwards must equal the sequential results.',
        'functions_encoded': ['tatsu.peg.base:Grammar.parse/optimized/_do_parse/newctx, tatsu.contexts.engine:ParserEngine.parse/bound and everything a parse calls, under two interleaved threads (vt/sched.py)',
                              'tatsu.api.api:compile/parse/to_python_sourcecode (compile cache)', 'tatsu.peg.base:Grammar.parse/new_parse_config/optimized', 'tatsu.contexts.core:find_cached_semantic_action',
                              'tatsu.util.typetools:BoundCallable._BIND_CACHE', 'tatsu.objectmodel.synth:synthesize registry', 'tatsu.config:ParserConfig.override', 'tatsu.contexts.engine:ParserEngine.bound (config restore)'],
        'bounds': f'histories of up to {k} calls (quick: all of length 1, and of length 2 after the 6 state-leaving calls; thorough: all of length 3) over a pool of {len(POOL_NAMES)} calls x every probed call; non-mutation for 4 (grammar, settings) pairs and texts of 2..{3 if tier == "quick" else 4} code points',
        'outside': 'Thread schedules with more than one preemption window (context bound 1: [A prefix][B whole][A rest], both roles), preemption between two byte-codes of one line '
                   '(switch points are call events in the quick tier, call and line events in the thorough tier), more than two threads, free-threaded builds; concurrent COMPILATION '
                   '(tatsu.compile in two threads) is scheduled only at the call/line events of tatsu/api/api.py (quick) or of api.py, objectmodel/synth.py and peg/base.py (thorough), not inside the bootstrap parse. Longer histories; other grammars.',
        'assumptions': ['the fresh-interpreter observable is the oracle', 'the battery of 9 texts distinguishes the configurations of the pool'],
    }
