"""C10 — API results depend only on the arguments, not on earlier calls (sequential histories; thread schedules are outside this technique)."""
from __future__ import annotations

import json

from ..harness import _tracing, mktext
from ..known import tolerated
from ..runner import Ob

UNI = 0x110000

G1 = "start::Top: x=item y=[item] $ ;\nitem::Item: /[ab]/ ;\n"
G2 = "start: 'a' 'B' $ ;\n"
G3 = "start: e $ ;\ne: e '+' t | t ;\nt: /[0-9]/ ;\n"
BATTERY = ['a', 'a b', 'A', 'a B', 'ab', '1+2', '', 'aB', '!']      # (ends with a text every grammar of the pool rejects: the last call of each battery fails)


class SemA:
    def item(self, ast):
        return ('A', ast)


class SemB:
    def item(self, ast):
        return ('B', ast)


def observe(model_or_parse):
    """result classes on the battery: outcome, shape and node type names"""
    from tatsu.exceptions import ParseException

    def shape(v):
        if isinstance(v, dict):
            return {k: shape(x) for k, x in v.items() if k != 'parseinfo'}
        if isinstance(v, (list, tuple)):
            return [shape(x) for x in v]
        if isinstance(v, (str, int, float)) or v is None:
            return v
        return [type(v).__name__, shape({k: x for k, x in vars(v).items() if not k.startswith('_') and k not in ('ctx', 'parseinfo')})]
    out = []
    for t in BATTERY:
        try:
            out.append(['ok', shape(model_or_parse(t))])
        except ParseException as e:
            out.append(['fail', type(e).__name__])
        except Exception as e:  # noqa: BLE001
            out.append(['exception', type(e).__name__])
    return out


def call_pool():
    """name -> zero-argument callable returning a JSON-able observable; every call goes through the public API"""
    import hashlib
    import tatsu
    sa, sb = SemA(), SemB()
    shared = {}

    def shared_gen():
        # ONE generated-parser object and ONE model object reused by every call of the history
        if 'gen' not in shared:
            shared['gen'] = _gen(G1)
        return shared['gen']

    def shared_model():
        if 'model' not in shared:
            shared['model'] = tatsu.compile(G1, name='Shared')
        return shared['model']
    pool = {
        'sharedgen_plain': lambda: observe(shared_gen().parse),
        'sharedgen_start_item': lambda: observe(lambda t: shared_gen().parse(t, start='item')),
        'sharedgen_nows_ignorecase': lambda: observe(lambda t: shared_gen().parse(t, whitespace='', ignorecase=True)),
        'sharedgen_semA': lambda: observe(lambda t: shared_gen().parse(t, semantics=sa)),
        'sharedgen_semB': lambda: observe(lambda t: shared_gen().parse(t, semantics=sb)),
        'sharedgen_asmodel': lambda: observe(lambda t: shared_gen().parse(t, asmodel=True)),
        'sharedmodel_plain': lambda: observe(shared_model().parse),
        'sharedmodel_start_item_parseinfo': lambda: observe(lambda t: shared_model().parse(t, start='item', parseinfo=True)),
        'compile_g1': lambda: observe(tatsu.compile(G1).parse),
        'compile_g1_asmodel': lambda: observe(tatsu.compile(G1, asmodel=True).parse),
        'compile_g1_semA': lambda: observe(tatsu.compile(G1, semantics=sa).parse),
        'compile_g1_semB': lambda: observe(tatsu.compile(G1, semantics=sb).parse),
        'compile_g1_named': lambda: observe(tatsu.compile(G1, name='Other').parse),
        'compile_g2': lambda: observe(tatsu.compile(G2).parse),
        'compile_g2_ignorecase': lambda: observe(tatsu.compile(G2, ignorecase=True).parse),
        'compile_g2_noguard': lambda: observe(tatsu.compile(G2, nameguard=False).parse),
        'parse_g2_ignorecase': lambda: observe(lambda t: tatsu.parse(G2, t, ignorecase=True)),
        'model_parse_start_item': lambda: observe(lambda t: tatsu.compile(G1).parse(t, start='item')),
        'compile_g3': lambda: observe(tatsu.compile(G3).parse),
        'source_g1': lambda: hashlib.sha1(tatsu.to_python_sourcecode(G1, name='P').encode()).hexdigest()[:12],
        'generated_g2': lambda: observe(_gen(G2).parse),
        'failed_then_good_g3': lambda: (lambda m: [observe(m.parse), observe(m.parse)])(tatsu.compile(G3)),
    }
    return pool


def _gen(g):
    import tatsu
    ns: dict = {}
    exec(compile(tatsu.to_python_sourcecode(g, name='H'), '<gen>', 'exec'), ns)  # noqa: S102
    return ns['HParser']()


POOL_NAMES = ['sharedgen_plain', 'sharedgen_start_item', 'sharedgen_nows_ignorecase', 'sharedgen_semA', 'sharedgen_semB', 'sharedgen_asmodel', 'sharedmodel_plain', 'sharedmodel_start_item_parseinfo', 'compile_g1', 'compile_g1_asmodel', 'compile_g1_semA', 'compile_g1_semB', 'compile_g1_named', 'compile_g2', 'compile_g2_ignorecase', 'compile_g2_noguard',
              'parse_g2_ignorecase', 'model_parse_start_item', 'compile_g3', 'source_g1', 'generated_g2', 'failed_then_good_g3']


def fresh_observables():
    """every call of the pool evaluated alone in a fresh interpreter: the history-free oracle"""
    import subprocess
    from ..runner import PY, env_for_children
    out = {}
    code = "import sys, json\nfrom vt.props.c10 import call_pool\nprint('OBS ' + json.dumps(call_pool()[sys.argv[1]](), default=repr))\n"
    for nm in POOL_NAMES:
        p = subprocess.run([PY, '-c', code, nm], env=env_for_children(), stdout=subprocess.PIPE, stderr=subprocess.PIPE, text=True, timeout=120)
        line = [ln for ln in p.stdout.splitlines() if ln.startswith('OBS ')]
        out[nm] = json.loads(line[-1][4:]) if line else ['fresh-run-failed', p.stderr[-200:]]
    return out


def make_history(spec):
    k = spec['k']
    known = tolerated('C10')
    fresh = fresh_observables()

    def classify(history, probe, got, want):
        names = history + [probe]
        if any('asmodel' in n for n in names) and any(n in ('compile_g1', 'model_parse_start_item', 'compile_g1_asmodel', 'source_g1') for n in names) and 'F8' in known:
            return 'F8'
        return None

    def native(sel):
        # every history runs in its own interpreter: process-wide caches must not leak from one explored history into the next
        import subprocess
        from ..runner import PY, env_for_children
        history = [POOL_NAMES[i] for i in sel[:-1]]
        probe = POOL_NAMES[sel[-1]]
        code = ("import sys, json\nfrom vt.props.c10 import call_pool\npool = call_pool()\nnames = sys.argv[1:]\n"
                "for h in names[:-1]:\n    try:\n        pool[h]()\n    except Exception:\n        pass\n"
                "try:\n    got = pool[names[-1]]()\nexcept Exception as e:\n    got = ['raised', type(e).__name__]\n"
                "print('OBS ' + json.dumps(got, default=repr))\n")
        p = subprocess.run([PY, '-c', code, *history, probe], env=env_for_children(), stdout=subprocess.PIPE, stderr=subprocess.PIPE, text=True, timeout=300)
        line = [ln for ln in p.stdout.splitlines() if ln.startswith('OBS ')]
        got = json.loads(line[-1][4:]) if line else ['history-run-failed', p.stderr[-200:]]
        want = fresh[probe]
        if got == want:
            return True, 'same-as-fresh', None
        kf = classify(history, probe, got, want)
        if kf:
            return True, 'known:' + kf, [history, probe]
        return False, 'history-dependent', [history, probe, repr(got)[:150], repr(want)[:150]]

    cache = {}

    def body(args):
        if _tracing():
            sel = []
            for a in args:
                v = 0
                for i in range(len(POOL_NAMES)):
                    if a == i:
                        v = i
                sel.append(v)
            from crosshair.tracers import NoTracing
            with NoTracing():
                cache.clear()
                cache[tuple(sel)] = r = native(sel)
                return r
        return cache.get(tuple(args)) or native(list(args))

    body.explain = lambda args: repr(native(list(args)))
    body.warm = [tuple([0] * (k + 1)), tuple([1] * k + [0])]
    return body


def make_nomutation(spec):
    """a parse (successful or failed) of a symbolic text never alters the grammar model or its configuration"""
    import tatsu
    from tatsu.exceptions import ParseException
    g = {'G1': G1, 'G2': G2, 'G3': G3}[spec['grammar']]
    model = tatsu.compile(g, name='NM' + spec['grammar'])
    settings = spec.get('settings', {})

    def fingerprint():
        cfg = model.config
        return [model.pretty(), repr(sorted((k, repr(v)) for k, v in vars(cfg).items() if not k.startswith('_'))), [(r.name, r.is_lrec, r.is_memo) for r in model.rules],
                repr(model.keywords), repr(sorted(model.directives.items()))]

    before = fingerprint()

    def body(args):
        t = mktext(args)
        try:
            model.parse(t, **settings)
            tag = 'ok'
        except ParseException:
            tag = 'fail'
        except Exception as e:  # noqa: BLE001
            return False, 'exception', type(e).__name__ + ': ' + str(e)[:80]
        after = fingerprint()
        if after != before:
            return False, 'model-or-config-altered', [a for a, b in zip(after, before) if a != b][:1]
        return True, tag, None

    n = spec['n']
    body.warm = [tuple(map(ord, w)) for w in ['', 'a', 'ab', 'a b', 'aB', '1+2', 'a B', '1'] if len(w) == n]
    return body


def plan(tier, seed):
    obs = []
    k = 2 if tier == 'quick' else 3
    n = len(POOL_NAMES)
    # histories of k calls followed by the probed call; split by the first call(s) to bound each obligation
    if k == 2:
        # quick: every history of one call, and every history of two calls that starts with a call on a shared parser/model object or with a
        # model-building compile (the calls that leave state behind); thorough: every history of three calls
        for first in range(n):
            two = POOL_NAMES[first].startswith('shared') or 'asmodel' in POOL_NAMES[first]
            if two:
                obs.append(Ob(name=f'H2_after_{POOL_NAMES[first]}', factory='vt.props.c10:make_history', spec={'k': 2, 'program': POOL_NAMES[first]},
                              params=[('h0', first, first + 1), ('h1', 0, n), ('probe', 0, n)], budget=1200, group='history', require_tags=('same-as-fresh',)))
            else:
                obs.append(Ob(name=f'H1_after_{POOL_NAMES[first]}', factory='vt.props.c10:make_history', spec={'k': 1, 'program': POOL_NAMES[first]},
                              params=[('h0', first, first + 1), ('probe', 0, n)], budget=600, group='history', require_tags=('same-as-fresh',)))
    else:
        for first in range(n):
            for second in range(n):
                obs.append(Ob(name=f'H3_after_{POOL_NAMES[first]}__{POOL_NAMES[second]}', factory='vt.props.c10:make_history', spec={'k': 3, 'program': POOL_NAMES[first]},
                              params=[('h0', first, first + 1), ('h1', second, second + 1), ('h2', 0, n), ('probe', 0, n)], budget=1800, group='history'))
    for gname, settings in (('G1', {}), ('G2', {'ignorecase': True}), ('G3', {}), ('G1', {'parseinfo': True, 'trace': False})):
        for ln in ((2, 3) if tier == 'quick' else (2, 3, 4)):
            obs.append(Ob(name=f'N_nomutation_{gname}_{len(settings)}_L{ln}', factory='vt.props.c10:make_nomutation', spec={'grammar': gname, 'settings': settings, 'n': ln, 'program': gname},
                          params=[(f'c{i}', 0, UNI) for i in range(ln)], budget={2: 90, 3: 400, 4: 2000}[ln], group='nomutation'))
    return {
        'obligations': obs,
        'level': 'other',
        'programs': len(POOL_NAMES),
        'explanation': f'Histories: a pool of {len(POOL_NAMES)} public-API calls (compile / parse / model.parse / generated parser / to_python_sourcecode over 3 grammars with varying name, '
                       f'asmodel, semantics object, ignorecase, nameguard, start rule; a failed parse followed by a good one on the same model). A history is {k} solver-chosen '
                       'call(s) followed by a solver-chosen probed call, all in one process sharing the semantics objects; the observable of the probed call (outcome, shape and '
                       'node class names on a battery of texts; a hash for generated source) must equal the observable of the same call made alone in a FRESH interpreter '
                       '(computed in child processes). Non-mutation: the model\'s pretty text, configuration fields, rule flags, keywords and directives are fingerprinted before '
                       'and after a parse of n symbolic code points (symbolic execution, all texts).',
        'functions_encoded': ['tatsu.api.api:compile/parse/to_python_sourcecode (compile cache)', 'tatsu.peg.base:Grammar.parse/new_parse_config/optimized', 'tatsu.contexts.core:find_cached_semantic_action',
                              'tatsu.util.typetools:BoundCallable._BIND_CACHE', 'tatsu.objectmodel.synth:synthesize registry', 'tatsu.config:ParserConfig.override', 'tatsu.contexts.engine:ParserEngine.bound (config restore)'],
        'bounds': f'histories of up to {k} calls (quick: all of length 1, and of length 2 after the 6 state-leaving calls; thorough: all of length 3) over a pool of {len(POOL_NAMES)} calls x every probed call; non-mutation for 4 (grammar, settings) pairs and texts of 2..{3 if tier == "quick" else 4} code points',
        'outside': 'THREAD SCHEDULES: CrossHair executes one thread and no packaged engine interleaves Python threads; the claim is restricted to sequential histories plus the '
                   'non-mutation invariant (which is what makes sharing a compiled model between threads safe). Longer histories; other grammars.',
        'assumptions': ['the fresh-interpreter observable is the oracle', 'the battery of 9 texts distinguishes the configurations of the pool'],
    }
