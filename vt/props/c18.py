"""C18 — parallel processing yields exactly one result per payload."""
from __future__ import annotations

from ..harness import _tracing
from ..runner import Ob


class DeclaredError(Exception):
    pass


class SubDeclaredError(DeclaredError):
    """a proper subclass of the class the payload declares: it must be captured like the class itself"""


class P:
    """a payload implementing the payload protocol"""

    def __init__(self, i, bad):
        self.i = i
        self.bad = bad
        self.path = f'p{i}'
        self.payload = i

    def raises(self):
        return (DeclaredError,)

    def __repr__(self):
        return f'P({self.i},{"raises" if self.bad else "ok"})'


def work(payload):
    if payload.bad:
        raise (SubDeclaredError if payload.i % 2 else DeclaredError)(f'bad {payload.i}')
    return payload.i * 10


def make_pmap(spec):
    import concurrent.futures as cf
    import threading
    import time as _time
    from tatsu.parproc import pmap as pmapmod
    from tatsu.parproc import task as taskmod
    from tatsu.parproc.parproc import parproc
    from tatsu.parproc.task import Task, taskproc
    from tatsu.util import identity
    N = spec['n']
    MAXSTEPS = spec['steps']

    def find_executor_pmap():
        pm = pmapmod.active_pmap()
        for cell in (pm.__closure__ or ()):
            v = cell.cell_contents
            if callable(v) and getattr(v, '__name__', '') == 'executor_pmap':
                return v
        raise RuntimeError('executor_pmap not found in the closure of active_pmap()')

    executor_pmap = find_executor_pmap()

    def native(n, workers, mask, order):
        """order: list of ints; at each completion step the (order[k] mod pending)-th pending future completes next"""
        step = [0]
        submitted = []

        class Fut:
            def __init__(self, fn, arg):
                self.fn, self.arg = fn, arg
                self.done_ = False
                self.value = self.exc = None

            def complete(self):
                if not self.done_:
                    self.done_ = True
                    try:
                        self.value = self.fn(self.arg)
                    except BaseException as e:  # noqa: BLE001
                        self.exc = e

            def done(self):
                return self.done_

            def running(self):
                return not self.done_

            def cancelled(self):
                return False

            def cancel(self):
                return False

            def exception(self, timeout=None):
                self.complete()
                return self.exc

            def result(self, timeout=None):
                self.complete()
                if self.exc is not None:
                    raise self.exc
                return self.value

        class StubPool(cf.ProcessPoolExecutor):
            def __init__(self, max_workers=None, **kw):      # no real processes
                self.mw = max_workers or 1

            def submit(self, fn, *a, **kw):
                f = Fut(fn, a[0])
                submitted.append(f)
                return f

            def shutdown(self, wait=True, *, cancel_futures=False):
                return None

            def __enter__(self):
                return self

            def __exit__(self, *a):
                return False

        def advance():
            """one scheduling step: one of the RUNNING futures (the first `workers` submitted and not yet done, whether or not the caller is
            waiting for them) completes; which one is the next solver-chosen value"""
            running = [f for f in submitted if not f.done_][:workers]
            if not running:
                return None
            k = order[step[0] % len(order)] % len(running) if order else 0
            step[0] += 1
            running[k].complete()
            return running[k]

        def stub_as_completed(fs, timeout=None):
            snapshot = list(fs)          # like the real as_completed: futures added later are not seen by this iteration
            yielded = []
            while len(yielded) < len(snapshot):
                ready = [f for f in snapshot if f.done_ and not any(f is y for y in yielded)]
                if ready:
                    yielded.append(ready[0])
                    yield ready[0]
                    continue
                if advance() is None:
                    return

        payloads = [P(i, bool((mask >> i) & 1)) for i in range(n)]
        stop = threading.Event()
        tasks = [Task(stop=stop, func=work, payload=p, pickable=identity, reraise=False, args=(), kwargs={}) for p in payloads]
        real_ac, real_tt, real_mem = pmapmod.as_completed, _time.thread_time, taskmod.memory_use
        import sys as _sys
        parprocmod = _sys.modules[parproc.__module__]      # (the package re-exports the function under the module's name)
        real_mp = parprocmod.multiprocessing

        class FakeMP:          # parproc() creates its stop event through multiprocessing.Manager(): a manager PROCESS per call; stubbed
            class _Mgr:
                def Event(self):
                    return threading.Event()

            def Manager(self):
                return FakeMP._Mgr()

            def cpu_count(self):
                return 2
        try:
            pmapmod.as_completed = stub_as_completed
            taskmod.memory_use = lambda: 0
            parprocmod.multiprocessing = FakeMP()
            try:
                got = list(executor_pmap(StubPool, stop, taskproc, tasks, workers))
            except Exception as e:  # noqa: BLE001
                return False, 'loop-raised', type(e).__name__ + ': ' + str(e)[:80]
            seq = list(parproc(work, payloads, parallel=False)) if n != 1 else [taskproc(tasks[0])]
        finally:
            pmapmod.as_completed = real_ac
            taskmod.memory_use = real_mem
            parprocmod.multiprocessing = real_mp

        def key(r):
            return (r.payload.i, r.outcome, ('DeclaredError' if isinstance(r.exception, DeclaredError) else type(r.exception).__name__) if r.exception is not None else None)
        gk, sk = sorted(map(key, got)), sorted(map(key, seq))
        want = sorted((p.i, None if p.bad else p.i * 10, 'DeclaredError' if p.bad else None) for p in payloads)
        if gk != want:
            return False, 'results', [gk, want, f'submitted={len(submitted)}']
        if sk != want:
            return False, 'sequential-results', [sk, want]
        if len(submitted) != n:
            return False, 'submitted-count', [len(submitted), n]
        return True, ('refilled' if n > 1 + workers else ('parallel' if n > 0 else 'triv:empty')), [n, workers]

    cache = {}

    def pick(a, hi):
        v = 0
        for i in range(hi):
            if a == i:
                v = i
        return v

    def body(args):
        if _tracing():
            workers = 1 + pick(args[0] - 1, 3)
            mask = pick(args[1], 2 ** N)
            order = [pick(a, N) for a in args[2:]]
            from crosshair.tracers import NoTracing
            with NoTracing():
                cache.clear()
                cache[(workers, mask, tuple(order))] = r = native(N, workers, mask, order)
                return r
        workers, mask, order = args[0], args[1], list(args[2:])
        return cache.get((workers, mask, tuple(order))) or native(N, workers, mask, order)

    body.explain = lambda args: repr(native(N, args[0], args[1], list(args[2:])))
    body.warm = [tuple([1, 0] + [0] * MAXSTEPS), tuple([2, 1] + [1] * MAXSTEPS)]
    return body


def make_runs(spec):
    """two independent parproc() calls in ONE process: the consumer stops the first run after a solver-chosen number of results (or a payload
    function raises KeyboardInterrupt there); the second run must still yield exactly one correct result per payload (sequential and single-task
    modes; the stop event of a run belongs to that run)"""
    import sys as _sys
    import threading
    from tatsu.parproc import task as taskmod
    from tatsu.parproc.parproc import parproc
    N = spec['n']
    parprocmod = _sys.modules[parproc.__module__]

    class FakeMP:
        class _Mgr:
            def Event(self):
                return threading.Event()

        def Manager(self):
            return FakeMP._Mgr()

        def cpu_count(self):
            return 2

    def native(stop_after, how, n2):
        real_mp, real_mem = parprocmod.multiprocessing, taskmod.memory_use
        try:
            parprocmod.multiprocessing = FakeMP()
            taskmod.memory_use = lambda: 0
            first = []

            def work1(payload):
                if how == 1 and payload.i == stop_after:
                    raise KeyboardInterrupt
                return work(payload)
            try:
                for k, r in enumerate(parproc(work1, [P(i, False) for i in range(N)], parallel=False)):
                    first.append(r)
                    if how == 0 and k + 1 == stop_after:
                        r.stop.set()
            except KeyboardInterrupt:
                pass
            payloads = [P(i, i == 1) for i in range(n2)]
            try:
                second = list(parproc(work, payloads, parallel=False))
            except Exception as e:  # noqa: BLE001
                return False, 'second-run-raised', type(e).__name__ + ': ' + str(e)[:80]
        finally:
            parprocmod.multiprocessing = real_mp
            taskmod.memory_use = real_mem
        got = sorted((r.payload.i, r.outcome, type(r.exception).__name__ if r.exception is not None else None) for r in second)
        want = sorted((p.i, None if p.bad else p.i * 10, ('SubDeclaredError' if p.i % 2 else 'DeclaredError') if p.bad else None) for p in payloads)
        if got != want:
            return False, 'second-run-results', [got, want, f'first run stopped after {stop_after} (how={how})']
        stopped = (how == 0 and 0 < stop_after <= N) or (how == 1 and stop_after < N)
        return True, ('after-stopped-run' if stopped else 'after-complete-run'), [len(first), n2]

    cache = {}

    def pick(a, hi):
        v = 0
        for i in range(hi):
            if a == i:
                v = i
        return v

    def body(args):
        if _tracing():
            key = (pick(args[0], N + 2), pick(args[1], 2), pick(args[2], 4))
            from crosshair.tracers import NoTracing
            with NoTracing():
                cache.clear()
                cache[key] = r = native(*key)
                return r
        return cache.get(tuple(args)) or native(*args)

    body.explain = lambda args: repr(native(*args))
    body.warm = [(N + 1, 0, 3), (1, 0, 3)]
    return body


def make_visual(spec):
    """the visual front end (parproc_visual: progress, per-result display, summary, legacy string payloads) around the sequential loop: still exactly one
    result per payload, carrying the outcome or the captured exception, for every subset of raising payloads and every combination of its display options"""
    import os
    import sys as _sys
    import tempfile
    import threading
    from pathlib import Path
    from tatsu.parproc import task as taskmod
    from tatsu.parproc.parproc import parproc
    from tatsu.parproc.payload import VisualPayload
    from tatsu.parproc.visual import parproc_visual
    N = spec['n']
    parprocmod = _sys.modules[parproc.__module__]
    scratch = tempfile.mkdtemp(prefix='vis', dir=os.getcwd())
    for i in range(N):
        for bad in (0, 1):
            Path(scratch, f'f{i}_{bad}.py').write_text(('bad\n' if bad else f'line {i}\n# comment\n\n'))

    class FakeMP:
        class _Mgr:
            def Event(self):
                return threading.Event()

        def Manager(self):
            return FakeMP._Mgr()

        def cpu_count(self):
            return 2

    class Prog:
        def update(self, *a, **k):
            pass

        def stop(self):
            pass

    def vwork(p):
        text = p.payload if getattr(p, 'payload', None) is not None else Path(p).read_text()      # (a legacy function takes a file name: Path(payload object) is a TypeError)
        if text.startswith('bad'):
            raise ValueError('bad payload')
        return len(text)

    def native(mask, summary, verbose, legacy):
        files = [str(Path(scratch, f'f{i}_{(mask >> i) & 1}.py')) for i in range(N)]
        payloads = files if legacy else [VisualPayload(Path(f), Path(f).read_text()) for f in files]
        real_mp, real_mem = parprocmod.multiprocessing, taskmod.memory_use
        try:
            parprocmod.multiprocessing = FakeMP()
            taskmod.memory_use = lambda: 0
            try:
                got = list(parproc_visual(vwork, payloads, Prog(), eprint=lambda *a, **k: None, parallel=False, summary=bool(summary), verbose=bool(verbose)))
            except Exception as e:  # noqa: BLE001
                return False, 'visual-loop-raised', type(e).__name__ + ': ' + str(e)[:80]
        finally:
            parprocmod.multiprocessing = real_mp
            taskmod.memory_use = real_mem
        key = sorted((str(getattr(r.payload, 'path', r.payload)), r.outcome, type(r.exception).__name__ if r.exception is not None else None) for r in got)
        want = sorted((f, None if (mask >> i) & 1 else len(Path(f).read_text()), 'ValueError' if (mask >> i) & 1 else None) for i, f in enumerate(files))
        if key != want:
            return False, 'visual-results', [key, want]
        return True, 'one-per-payload' if N else 'triv:empty', None

    cache = {}

    def pick(a, hi):
        v = 0
        for i in range(hi):
            if a == i:
                v = i
        return v

    def body(args):
        if _tracing():
            key = (pick(args[0], 2 ** N), pick(args[1], 2), pick(args[2], 2), pick(args[3], 2))
            from crosshair.tracers import NoTracing
            with NoTracing():
                cache.clear()
                cache[key] = r = native(*key)
                return r
        return cache.get(tuple(args)) or native(*args)

    body.explain = lambda args: repr(native(*args))
    body.warm = [(0, 1, 1, 0), ((2 ** N) - 1, 0, 0, 1)]
    return body


def native_checks():
    """the same relation through the real parproc() with real pools (sampled: real scheduling is outside the solver's reach)"""
    import subprocess
    from ..runner import PY, env_for_children
    code = ("import sys\nfrom vt.props.c18 import P, work\nfrom tatsu.parproc.parproc import parproc\n"
            "ps=[P(i, i in (1,4)) for i in range(6)]\n"
            "from vt.props.c18 import DeclaredError\n"
            "got=sorted((r.payload.i, r.outcome, ('DeclaredError' if isinstance(r.exception, DeclaredError) else type(r.exception).__name__) if r.exception is not None else None) for r in parproc(work, ps, max_workers=2))\n"
            "want=sorted((p.i, None if p.bad else p.i*10, 'DeclaredError' if p.bad else None) for p in ps)\n"
            "print('REAL', got==want, got)\n")
    try:
        p = subprocess.run([PY, '-c', code], env=env_for_children(), stdout=subprocess.PIPE, stderr=subprocess.PIPE, text=True, timeout=120)
        ok = 'REAL True' in p.stdout
        detail = (p.stdout + p.stderr)[-400:]
    except Exception as e:  # noqa: BLE001
        ok, detail = False, repr(e)
    return [{'name': 'real_process_pool_6_payloads_2_raising', 'ok': ok, 'detail': detail}]


def plan(tier, seed):
    obs = []
    for n in ((0, 1, 2, 3, 4) if tier == 'quick' else (0, 1, 2, 3, 4, 5)):
        steps = max(1, n)
        obs.append(Ob(name=f'pmap_n{n}', factory='vt.props.c18:make_pmap', spec={'n': n, 'steps': steps},
                      params=[('workers', 1, 4 if n < 4 else 3), ('mask', 0, 2 ** n)] + [(f'o{i}', 0, 3) for i in range(steps)],
                      budget=900 if n < 5 else 3600, group='pmap', require_tags=('refilled',) if n >= 3 else ()))
    for n in ((0, 1, 3) if tier == 'quick' else (0, 1, 2, 3, 4)):
        obs.append(Ob(name=f'visual_n{n}', factory='vt.props.c18:make_visual', spec={'n': n, 'program': 'visual'},
                      params=[('mask', 0, 2 ** n), ('summary', 0, 2), ('verbose', 0, 2), ('legacy', 0, 2)], budget=300, group='visual', require_tags=('one-per-payload',) if n else ()))
    for n in (3,):
        obs.append(Ob(name=f'runs_n{n}', factory='vt.props.c18:make_runs', spec={'n': n, 'program': 'two-runs'},
                      params=[('stop_after', 0, n + 2), ('how', 0, 2), ('n2', 0, 4)], budget=300, group='runs', require_tags=('after-stopped-run',)))
    return {
        'obligations': obs,
        'native': native_checks,
        'level': 'other',
        'programs': 1,
        'explanation': 'The real executor_pmap loop (taken from the closure of active_pmap()), taskproc, Task and Result run with the executor class and as_completed replaced '
                       'by deterministic stubs: which pending future completes next is a sequence of solver-chosen values (as_completed snapshots its argument like the real '
                       'one), the worker count (1..3) and the subset of payloads that raise a declared exception are solver-chosen too. For every schedule the multiset of '
                       'yielded results is exactly one per payload, carrying the outcome or the captured exception, equals the sequential mode\'s multiset, and every task '
                       'was submitted exactly once. The solver enumerates the schedule variables; each path runs the real loop natively. One sampled run through real '
                       'process pools is a by-product. Two runs in one process: the first run is stopped by its consumer (result.stop.set()) or by a KeyboardInterrupt in a payload '
                       'function at a solver-chosen point, the second, independent run must still yield one correct result per payload.',
        'functions_encoded': ['tatsu.parproc.visual:parproc_visual/process_packets, tatsu.parproc.summary:show_summary/result_stats (sequential mode, display stubbed)', 'tatsu.parproc.pmap:active_pmap.executor_pmap', 'tatsu.parproc.parproc:parproc (sequential mode)', 'tatsu.parproc.task:taskproc/Task', 'tatsu.parproc.result:Result'],
        'bounds': f'payload lists of length 0..{4 if tier == "quick" else 5}, worker counts 1..3, every subset of raising payloads, every completion order of the pending futures',
        'outside': 'real process/thread pools, pickling and OS scheduling (one sampled native run only); what a STOPPED run itself yields; undeclared exceptions (they propagate by design)',
        'assumptions': ['stubs: executor class (subclass of ProcessPoolExecutor without processes), as_completed, memory_use, multiprocessing.Manager (stop event) in the sequential mode'],
    }
