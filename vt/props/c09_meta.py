META = {
    'level': 'other',
    'text': 'Bounded symbolic metamorphic verification: symbolic whitespace/comment runs at every token boundary leave the AST unchanged (and are not skipped before '
            'patterns / upper-case rules); nameguard, namechars and ignorecase against the reference evaluator on all texts up to the bound; configuration layering over '
            'solver-chosen layer combinations observed through behaviour. The relation ranges over every token boundary and every combination of directive and setting.',
    'note': 'Part A is reference-free (real engine vs itself on the canonical layout). Trusted: vt/refpeg.py lexical rules for part B; CrossHair/z3 models validated per path '
            'natively. Known finding F11 (compile-time settings never reach the model) identified by signature.',
    'technique': 'symbolic execution (CrossHair/z3) with symbolic whitespace/comment runs (metamorphic) and symbolic text against the reference evaluator; solver-chosen configuration-layer selectors observed through behaviour',
}
