"""C04 — memoization and tracing never change what a parse returns."""
from __future__ import annotations

from ..grammars import A, AND, C, CUT, EOF_, GRP, JOIN, N, NOT, OPT, P, REP, REP1, S, T
from ..harness import mktext
from ..runner import Ob
from .c03 import GRAMMARS as LREC

UNI = 0x110000

# backtracking-heavy grammars: the same rule is retried at the same position after a failed option, with cuts and closures
NONLREC = {
    'retry_same_rule': [('start', A(S(C('r'), T('b')), S(C('r'), T('c')), S(C('r'), C('r'))), ), ('r', A(T('a'), P('[xy]')))],
    'retry_after_cut': [('start', A(S(C('r'), T('b')), S(T('('), CUT, C('r'), T(')')), C('q'))), ('r', A(S(T('a'), T('a')), T('a'))), ('q', S(C('r'), OPT(T('c'))))],
    'closure_of_rule': [('start', S(REP(S(C('r'), T(','))), C('r'), EOF_)), ('r', A(S(T('a'), T('b')), T('a')))],
    'lookahead_then_rule': [('start', A(S(AND(C('r')), C('r'), T('b')), S(NOT(S(C('r'), T('b'))), C('r'), OPT(T('c'))))), ('r', P('a+'))],
    'named_retry': [('start', A(S(N('x', C('r')), N('y', T('b'))), S(N('x', C('r')), N('z', C('r'))))), ('r', A(T('a'), T('b')))],
    'nested_rules': [('start', A(S(C('p'), T('c')), C('p'))), ('p', A(S(C('r'), T('b')), C('r'))), ('r', A(T('a'), S(T('('), C('p'), T(')'))))],
    'join_of_rule': [('start', S(JOIN(T(','), C('r'), True), EOF_)), ('r', A(S(T('a'), CUT, OPT(T('b'))), T('b')))],
    # rule names that differ only by leading/trailing underscores are different rules with different memo entries
    'underscore_names': [('start', A(S(C('x_'), T('b')), S(C('x'), T('c')), S(C('_x'), C('x'), T('d')))), ('x', A(T('a'), P('[xy]'))), ('x_', S(T('a'), OPT(T('a')))), ('_x', P('a?'))],
    # two different failures at the same furthest position, one of them inside a rule that is retried from the memo (known finding F40: the error CLASS)
    'error_tie': [('start', A(S(C('r'), T('x')), C('q'), S(C('r'), T('y')))), ('r', A(S(T('a'), C('bb')), T('c'))), ('bb', T('b')), ('q', S(T('a'), C('pp'))), ('pp', P('x'))],
    'failing_rule_memo': [('start', A(S(C('r'), T('x')), S(C('q'), T('y')), P('.+'))), ('r', S(T('a'), T('b'))), ('q', A(C('r'), T('a')))],
}
# a left-recursive component with two cycles through one leader: the non-leader members are retried at the same position while the
# seed grows (needs >= 3 growth steps that take different branches, e.g. abxcy)
TWO_CYCLES = [('start', S(C('e'), EOF_)), ('e', A(S(C('pb'), T('x')), S(C('pc'), T('y')), T('a'))), ('pb', S(C('e'), T('b'))), ('pc', S(C('e'), T('c')))]
TWO_CYCLES_CUT = [('start', S(C('e'), EOF_)), ('e', A(S(C('pb'), T('x'), CUT), S(C('pc'), T('y'), CUT), T('a'))), ('pb', S(C('e'), T('b'))), ('pc', S(C('e'), T('c')))]
# a left-recursive rule with TWO alternatives that start with the recursive call; a cut inside a called rule at a later position (pruning memos at a cut
# must leave the growing seed alone); the first alternative fails after the cut ran, the second re-invokes the rule at its start position
TWO_REC_ALTS_CUT = [('start', S(C('e'), EOF_)), ('e', A(S(C('e'), T('+'), C('t'), T(';')), S(C('e'), T('+'), C('t')), C('t'))), ('t', A(T('x'), S(T('('), CUT, C('e'), T(')'))))]
VARIANTS = {
    'nomemo': {'memoization': False},
    'memo1': {'perlinememos': 0.01},
    'noprune': {'prune_memos_on_cut': False},
    'parseinfo': {'parseinfo': True},
}
SETTINGS = {'nameguard': False, 'whitespace': ''}
WARM = ['', 'a', 'ab', 'ac', 'aa', 'a,a', 'ab,a', '(a)', 'aab', 'aac', 'x+x', 'x', 'abx', 'ay', 'abc', 'a,b', 'b,a', '((a))', 'x+x+x', 'x*x', 'ab,']
BUDGET = {0: 40, 1: 40, 2: 80, 3: 300, 4: 1500}


def make_variant(spec):
    """Self-differential + native tracing comparison on each path's witness."""
    from ..pegbody import make_peg
    inner = make_peg(spec)
    if not spec.get('trace'):
        return inner
    import contextlib
    import io
    from ..pegbody import Engine, norm, rules_of
    from ..refpeg import render_grammar
    from ..harness import _tracing
    eng = Engine(render_grammar(rules_of(spec)), spec.get('settings'), spec.get('start'))

    def body(args):
        ok, tag, dg = inner(args)
        if not ok or _tracing():
            return ok, tag, dg
        # native only (tracing formats the text into messages, which would realise symbolic strings)
        t = mktext(args)
        base = eng.parse(t)
        for extra in ({'trace': True, 'colorize': False}, {'trace': True, 'colorize': True}, {'colorize': True}):
            sink = io.StringIO()
            try:
                with contextlib.redirect_stderr(sink), contextlib.redirect_stdout(sink):
                    other = eng.parse(t, **extra)
            except Exception as e:  # noqa: BLE001
                return False, 'trace-exception', [extra, type(e).__name__ + ': ' + str(e)[:100]]
            if other[0] != base[0] or (base[0] == 'ok' and (norm(other[1]) != norm(base[1]) or other[2] != base[2])) \
                    or (base[0] == 'fail' and other[1] != base[1]):
                return False, 'trace-changes-result', [extra, repr(base)[:100], repr(other)[:100]]
        return ok, tag, dg

    body.explain = inner.explain
    body.warm = inner.warm
    return body


def plan(tier, seed):
    from ..known import tolerated
    verr = 'F40-tolerated' if 'F40' in tolerated('C04') else 'strict'
    obs = []
    lrec = ['direct', 'mutual', 'two_ops', 'cut_in_leftrec'] if tier == 'quick' else list(LREC)
    maxn = 3 if tier == 'quick' else 4
    fam = [(nm, rs, False) for nm, rs in NONLREC.items()] + [(nm, LREC[nm], True) for nm in lrec]
    for nm, rs, is_lrec in fam:
        for vn, vs in VARIANTS.items():
            if is_lrec and vn == 'nomemo':
                continue
            for n in range(0, maxn + 1):
                spec = {'grammar': nm, 'rules': rs, 'n': n, 'settings': SETTINGS, 'ref': False, 'variants': [vs], 'warm': WARM + ['a!', 'a !', 'a!!'],
                        'trace': vn == 'memo1', 'variant_errors': verr if vn != 'parseinfo' else 'strict'}
                obs.append(Ob(name=f'{nm}_{vn}_L{n}', factory='vt.props.c04:make_variant', spec=spec,
                              params=[(f'c{i}', 0, UNI) for i in range(n)], budget=BUDGET[n], group=f'A:{vn}',
                              require_tags=('ok',) if n == 3 and nm not in ('mutual', 'cut_in_leftrec') else ()))
    # tracing must not move the parse cursor: grammars whose patterns / upper-case rules / any-char see the whitespace themselves, default whitespace
    WS = {
        'ws_pattern_after_token': [('start', S(T('a'), P('[ b]+'), OPT(T('c'))))],
        'ws_upper_rule': [('start', S(T('a'), C('SP'), T('b'))), ('SP', P('[ \\t]+'))],
        'ws_anychar_after_cut': [('start', A(S(T('a'), CUT, ('dot',), OPT(T('b'))), P('..')))],
    }
    for nm, rs in WS.items():
        for n in ((2, 3) if tier == 'quick' else (2, 3, 4)):
            spec = {'grammar': nm, 'rules': rs, 'n': n, 'settings': {}, 'ref': False, 'variants': [VARIANTS['memo1']], 'warm': ['a b', 'a  ', 'a\tb', 'ab', 'a b c', ' a', 'a ', 'a bc'], 'trace': True}
            obs.append(Ob(name=f'{nm}_trace_L{n}', factory='vt.props.c04:make_variant', spec=spec, params=[(f'c{i}', 0, UNI) for i in range(n)],
                          budget={2: 120, 3: 500, 4: 2400}[n], group='A:trace-ws', require_tags=('ok',) if n == 3 else ()))
    # two-cycle component at length 5 over its own alphabet (stated: not all of Unicode at this length)
    alpha = sorted({ord(c) for c in 'abcxyq'})
    for nm, rs in (('two_cycles', TWO_CYCLES), ('two_cycles_cut', TWO_CYCLES_CUT)):
        for vn in ('memo1', 'noprune'):
            for n in ((3, 5) if tier == 'quick' else (3, 4, 5, 6)):
                # every accepted text starts with the operand 'a'; the other positions range over the operator alphabet + one other character
                pre = ' and '.join(['c0 == 97'] + ['(' + ' or '.join(f'c{i} == {c}' for c in alpha if c != 97) + ')' for i in range(1, n)]) if n >= 4 else ''
                spec = {'grammar': nm, 'rules': rs, 'n': n, 'settings': SETTINGS, 'ref': False, 'variants': [VARIANTS[vn]], 'warm': WARM + ['abx', 'acy', 'abxbx'], 'trace': False}
                obs.append(Ob(name=f'{nm}_{vn}_L{n}', factory='vt.props.c04:make_variant', spec=spec, params=[(f'c{i}', 0, UNI) for i in range(n)],
                              budget={3: 300, 4: 600, 5: 400 if tier == 'quick' else 1500, 6: 3000}[n], group=f'A:{vn}', extra_pre=pre))
    for vn in ('noprune', 'memo1'):
        for n in ((5,) if tier == 'quick' else (4, 5, 6, 7)):
            alpha2 = [ord(c) for c in 'x+();q']
            pre = ' and '.join('(' + ' or '.join(f'c{i} == {c}' for c in alpha2) + ')' for i in range(n))
            if tier == 'quick':
                # stated: first character an operand start, last character an operand end or ';', the middle over "x+()"
                pos = [[ord(c) for c in 'x(']] + [[ord(c) for c in 'x+()']] * (n - 2) + [[ord(c) for c in 'x);']]
                pre = ' and '.join('(' + ' or '.join(f'c{i} == {c}' for c in cs) + ')' for i, cs in enumerate(pos))
            spec = {'grammar': 'two_rec_alts_cut', 'rules': TWO_REC_ALTS_CUT, 'n': n, 'settings': SETTINGS, 'ref': False, 'variants': [VARIANTS[vn]], 'warm': WARM + ['x+(x)', 'x+x;', 'x+(x);', '(x)+x', 'x+x+x'], 'trace': False,
                    'variant_errors': verr}
            obs.append(Ob(name=f'two_rec_alts_cut_{vn}_L{n}', factory='vt.props.c04:make_variant', spec=spec, params=[(f'c{i}', 0, UNI) for i in range(n)],
                          budget={4: 300, 5: 600, 6: 2000, 7: 3000}[n], group=f'A:{vn}', extra_pre=pre))
    # B: BoundedDict step semantics ; C: MemoKey
    for k in ((3,) if tier == 'quick' else (3, 4)):
        obs.append(Ob(name=f'B_boundeddict_k{k}', factory='vt.props.c04:make_boundeddict', spec={'k': k},
                      params=[('cap', 1, 4)] + [p for i in range(k) for p in ((f'op{i}', 0, 3), (f'k{i}', 0, 3), (f'v{i}', 0, 2))],
                      budget=400 if k < 4 else 3000, group='B', require_tags=('evicted',)))
    obs.append(Ob(name='C_memokey', factory='vt.props.c04:make_memokey', spec={},
                  params=[('p1', 0, 2), ('p2', 0, 2), ('r1', 0, 5), ('r2', 0, 5), ('s1', 0, 2), ('s2', 0, 2)], budget=400, group='C', require_tags=('equal', 'distinct')))
    return {
        'obligations': obs,
        'level': 'other',
        'programs': len(fam),
        'explanation': 'Self-differential, reference-free: for backtracking-heavy grammars (and left-recursive ones where memoization must stay on) '
                       'and every text of n symbolic code points, the real engine under the default configuration and under ONE variant per '
                       'obligation (memoization off, memo capacity 1, no pruning at cuts, parseinfo on) must give the same outcome, end position '
                       'and AST modulo parseinfo entries. trace=True / colorize are compared natively on the solver-chosen witness of every path '
                       '(the tracer formats text into messages, which cannot stay symbolic). B: BoundedDict step semantics over symbolic operation '
                       'sequences. C: MemoKey equality/hash over symbolic positions and rules.',
        'functions_encoded': ['tatsu.contexts.core:ParserCore.memokey/memo/memoize/cut/_initialize_caches', 'tatsu.util.boundeddict:BoundedDict', 'tatsu.contexts.infos:MemoKey/RuleInfo',
                              'tatsu.contexts.engine:ParserEngine.rule_call/recursive_call/set_parseinfo/make_parseinfo', 'tatsu.contexts.tracing:ConsoleTracer (native on witnesses)'],
        'bounds': f'{len(fam)} grammars x 4 variants, text length 0..{maxn} over all Unicode; BoundedDict: capacity 1..3, {("3" if tier == "quick" else "3..4")} operations (set/get/del) over 3 keys and 2 values; whitespace "", nameguard off',
        'outside': 'longer texts; multi-line texts for the per-line memo capacity (capacity is max(1, perlinememos)*linecount: short texts have 1..n+1 lines); trace output itself',
        'assumptions': ['tracer output is discarded (stderr/stdout redirected)'],
    }


def make_boundeddict(spec):
    from tatsu.util.boundeddict import BoundedDict
    k = spec['k']

    def body(args):
        cap = args[0]
        d = BoundedDict(cap)
        last = {}      # model: key -> last stored value (ignoring eviction)
        evicted = False
        for i in range(k):
            op, key, val = args[1 + 3 * i], args[2 + 3 * i], args[3 + 3 * i]
            try:
                if op == 0:
                    d[key] = val
                    last[key] = val
                elif op == 1:
                    got = d.get(key)
                    if got is not None and not (key in last and last[key] == got):
                        return False, 'stale-get', [i]
                else:
                    if key in d:
                        del d[key]
                    last.pop(key, None)
            except Exception as e:  # noqa: BLE001
                return False, 'exception', repr(e)[:80]
            if len(d) > cap:
                return False, 'over-capacity', [i, len(d)]
            for kk in list(d.keys()):
                if not (kk in last and d[kk] == last[kk]):
                    return False, 'stale-entry', [i]
            if len(d) < len(last):
                evicted = True
        return True, 'evicted' if evicted else 'triv:no-eviction', [len(d)]

    body.warm = [tuple([1] + [0, 1, 1] * k), tuple([2] + [0, 1, 2] * k)]
    return body


def make_memokey(spec):
    """MemoKey equality <=> same position and same rule name, also as dict key (what memo/memoize need)."""
    from tatsu.contexts.infos import MemoKey, RuleInfo
    names = ['a', 'b', 'a_', '_', '__']      # (names that differ only by underscores are different rules)

    def ri(i, variant):
        def f(ctx):
            return None
        f.__name__ = names[i]
        # two RuleInfo objects for the same rule (as produced for different instances) must be the same key
        return RuleInfo.new(object() if variant else None, f)

    infos = [[ri(i, v) for v in (0, 1)] for i in range(len(names))]

    def body(args):
        p1, p2, r1, r2, s1, s2 = args
        try:
            row1 = row2 = infos[0]
            for i in range(1, len(names)):
                if r1 == i:
                    row1 = infos[i]
                if r2 == i:
                    row2 = infos[i]
            a = row1[0] if s1 == 0 else row1[1]
            b = row2[0] if s2 == 0 else row2[1]
            k1 = MemoKey(p1, a)
            k2 = MemoKey(p2, b)
            same = (p1 == p2 and r1 == r2)
            if (k1 == k2) != same:
                return False, 'eq-mismatch', [bool(k1 == k2), bool(same)]
            if same and hash(k1) != hash(k2):
                return False, 'hash-mismatch', None
            d = {k1: 1}
            if (k2 in d) != same:
                return False, 'dict-lookup', None
        except Exception as e:  # noqa: BLE001
            return False, 'exception', repr(e)[:100]
        return True, 'equal' if same else 'distinct', None

    body.warm = [(0, 0, 0, 0, 0, 0), (1, 2, 0, 1, 0, 0)]
    return body
