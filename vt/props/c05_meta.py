META = {
    'level': 'other',
    'text': 'Bounded symbolic differential verification over systematically placed cuts: real engine == reference semantics of cut scopes, and '
            'cut erasure is invisible on accepted inputs, for every text up to the length bound. Which state frame remembers a cut depends on '
            'iteration number and construct; systematic placement x all inputs is what exposes a frame that loses or leaks the flag.',
    'note': 'Trusted: vt/refpeg.py cut semantics (option, optional, closure/join iteration, rule body, lookahead; group transparent; join commits '
            'after each separator); CrossHair/z3 models validated per path natively. Grammars enumerated, texts symbolic.',
}
