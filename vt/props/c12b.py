FUNCS = []
def obligations(tier, seed): return []
def bounds(tier): return ''
