"""C12-B — parse information: rule name and start/end offsets of every dict-like AST, start line consistent with the start offset."""
from __future__ import annotations

from ..grammars import A, C, EOF_, N, NL, OPT, P, REP, S, T
from ..harness import _tracing, mktext, skel
from ..runner import Ob

UNI = 0x110000
FUNCS = ['tatsu.contexts.engine:ParserEngine.make_parseinfo/set_parseinfo/call/rule_call', 'tatsu.contexts.ast:AST.set_parseinfo', 'tatsu.contexts.infos:ParseInfo']

GRAMMARS = {
    'items': [('start', S(NL('elems', REP(C('item'))), EOF_)), ('item', S(N('k', P('[a-z]')), OPT(N('v', T('1')))))],
    'pair': [('start', S(N('l', C('r')), OPT(T(',')), OPT(N('m', C('r'))))), ('r', A(N('x', T('a')), N('y', T('b'))))],
    'nested': [('start', S(N('a', C('mid')), EOF_)), ('mid', S(N('i', C('leaf')), OPT(N('j', C('leaf'))))), ('leaf', N('v', P('\\w')))],
    'retry': [('start', A(S(N('p', C('r')), T('x')), S(N('q', C('r')), OPT(T('y'))))), ('r', N('v', A(T('a'), T('b'))))],
    # rules WITHOUT named elements (their AST is a string or a list): typed, their model nodes must still name the rule and delimit its match
    'noname': [('start', S(REP(C('item')), OPT(C('num')), EOF_)), ('item', P('[a-z]')), ('num', S(P('[0-9]'), OPT(P('[0-9]'))))],
    # a rule that hands on the node of another rule after consuming something itself ('-' @:num): the node names the outer rule WITH the outer rule's span
    'passthrough': [('start', S(N('v', C('neg')), EOF_)), ('neg', A(S(T('-'), ('ovr', C('num'))), ('ovr', C('num')))), ('num', N('d', P('[0-9]')))],
    'upper': [('start', S(N('t', C('Tok')), OPT(N('u', C('tok'))))), ('Tok', N('v', P('[ab]'))), ('tok', N('w', P('[ab]')))],
}


def make_parseinfo(spec):
    from ..pegbody import Engine, render_full, rules_of
    from ..refpeg import Fail, G, Ref
    from .c12 import is_break_py, ref_lines
    rules = rules_of(spec)
    gtext = render_full(rules)
    eng = Engine(gtext, {'parseinfo': True})
    g = G(rules)
    names = [n for n, _ in rules]
    n = spec['n']

    def strip(v):
        if isinstance(v, dict):
            return {k: strip(x) for k, x in v.items() if k not in ('parseinfo', '__parseinfo__')}
        if isinstance(v, (list, tuple)):
            return [strip(x) for x in v]
        return v

    def walk(v, out):
        if isinstance(v, dict):
            out.append(v)
            for k, x in v.items():
                if k not in ('parseinfo', '__parseinfo__'):
                    walk(x, out)
        elif isinstance(v, (list, tuple)):
            for x in v:
                walk(x, out)

    def line_of(spans, pos, length):
        if pos >= length:
            return None          # convention at end of text not fixed by the property (see part A)
        k = 0
        while not (spans[k][0] <= pos < spans[k][1]):
            k += 1
        return k

    def body(args):
        t = mktext(args)
        try:
            real = eng.parse(t)
        except Exception as e:  # noqa: BLE001
            return False, 'exception', type(e).__name__ + ': ' + str(e)[:80]
        r = Ref(g, t)
        try:
            v, q = r.parse()
            ref = ('ok', v, q)
        except Fail:
            ref = ('fail',)
        if real[0] != ref[0]:
            return False, 'outcome', [real[0], ref[0]]
        if real[0] == 'fail':
            return True, 'fail' if real[1] > 0 else 'triv:fail0', None
        if not (strip(real[1]) == ref[1]):
            return False, 'ast', [skel(strip(real[1])), skel(ref[1])]
        nodes = []
        walk(real[1], nodes)
        lines = ref_lines(t, is_break_py)
        count = 0
        for nd in nodes:
            pi = nd.get('parseinfo')
            if pi is None:
                return False, 'missing-parseinfo', [skel(strip(nd))]
            if pi.rule not in names:
                return False, 'unknown-rule', [pi.rule]
            val = strip(nd)
            found = False
            for (rn, s, e, rv) in r.spanlog:
                if rn == pi.rule and s == pi.pos and e == pi.endpos and isinstance(rv, dict) and rv == val:
                    found = True
                    break
            if not found:
                return False, 'span', [pi.rule, pi.pos, pi.endpos, [(a, b, c) for (a, b, c, d) in r.spanlog if a == pi.rule]]
            if not (0 <= pi.pos <= pi.endpos <= n):
                return False, 'offsets', [pi.pos, pi.endpos]
            want = line_of(lines, pi.pos, n)
            if want is not None and pi.line != want:
                return False, 'line', [pi.pos, pi.line, want]
            wante = line_of(lines, pi.endpos, n)
            if wante is not None and pi.endline != wante:
                return False, 'endline', [pi.endpos, pi.endline, wante]
            count += 1
        if typed is not None and not _tracing():
            why = model_nodes(t)
            if why is not None:
                return False, why.split(' ')[0], why
        return True, 'ok', [count]

    # the same grammar with every rule typed: model nodes must carry the rule, the offsets of the match and a text/line that agree with them
    typed = None
    try:
        import tatsu
        from tatsu.objectmodel import Node
        typed_text = ''.join(f'{n}::{n.title()}Vt: ' + line.split(': ', 1)[1] for n, line in zip(names, gtext.splitlines(True)))
        typed = tatsu.compile(typed_text, name='PI')
    except Exception:  # noqa: BLE001
        typed = None

    def model_nodes(t):
        try:
            m = typed.parse(t, asmodel=True, parseinfo=True)
        except Exception as e:  # noqa: BLE001
            return 'model-parse-exception ' + type(e).__name__ + ': ' + str(e)[:60]
        lines = ref_lines(t, is_break_py)
        todo, seen = [m], []
        while todo:
            x = todo.pop()
            if isinstance(x, Node):
                if any(x is y for y in seen):
                    continue
                seen.append(x)
                pi = x.parseinfo
                if pi is None:
                    return f'node-without-parseinfo {type(x).__name__}'
                if pi.rule not in names or type(x).__name__ != pi.rule.title() + 'Vt':
                    return f'node-rule {type(x).__name__} {pi.rule}'
                if not (0 <= pi.pos <= pi.endpos <= len(t)):
                    return f'node-offsets {pi.pos} {pi.endpos}'
                if x.text is not None and x.text != t[pi.pos:pi.endpos]:
                    return f'node-text {x.text!r} != {t[pi.pos:pi.endpos]!r}'
                want = line_of(lines, pi.pos, len(t))
                if want is not None and (x.line != want or pi.line != want):
                    return f'node-line {x.line} {want}'
                todo.extend(v for k, v in vars(x).items() if not k.startswith('_') and k not in ('ctx', 'parseinfo'))
            elif isinstance(x, dict):
                todo.extend(x.values())
            elif isinstance(x, (list, tuple)):
                todo.extend(x)
        return None

    def explain(args):
        t = mktext(args)
        r = Ref(g, t)
        try:
            ref = r.parse()
        except Fail:
            ref = 'fail'
        return f'grammar:\n{gtext}text={t!r}\nreal={eng.parse(t)!r}\nreference={ref!r}\nreference spans={[(a, b, c) for (a, b, c, d) in r.spanlog]}'

    body.explain = explain
    body.warm = [tuple(map(ord, w)) for w in ['', 'a', 'a1', 'ab', 'a b', '\na', 'a\nb', 'a,b', ' a ', 'ax', 'by', 'a\r\n', 'b 1', '\n\nb', 'a\rb'] if len(w) == n]
    return body


def obligations(tier, seed):
    obs = []
    maxn = 3 if tier == 'quick' else 4
    for gn, rules in GRAMMARS.items():
        for n in range(0, maxn + 1):
            obs.append(Ob(name=f'B_{gn}_L{n}', factory='vt.props.c12b:make_parseinfo', spec={'grammar': gn, 'rules': rules, 'n': n},
                          params=[(f'c{i}', 0, UNI) for i in range(n)], budget={0: 40, 1: 40, 2: 90, 3: 400, 4: 2000}[n], group='B',
                          require_tags=('ok',) if n == 2 else ()))
    return obs


def bounds(tier):
    return f'B: {len(GRAMMARS)} grammars with named rules, parseinfo=True, text length 0..{3 if tier == "quick" else 4} over all Unicode (default whitespace, so line breaks occur between elements).'
