"""C07 — object models mirror the AST with typed, navigable nodes."""
from __future__ import annotations

from ..harness import _tracing, mktext, skel
from ..known import tolerated
from ..runner import Ob

UNI = 0x110000

# name: (grammar, {rule: (typename, [bases...])}, warm texts)
GRAMMARS = {
    'prog': ("start::Prog: stmts+={stmt} [tail=leaf] $ ;\nstmt::Stmt::Base: k=/[a-z]/ v=[leaf] ;\nleaf::Leaf: /[0-9]/ ;\n",
             {'start': ('Prog', []), 'stmt': ('Stmt', ['Base']), 'leaf': ('Leaf', [])}),
    'pair': ("start::Pair: left=item right=[item] ;\nitem::Item: v=/[ab]/ | '(' v=item ')' ;\n", {'start': ('Pair', []), 'item': ('Item', [])}),
    'noname': ("start::Wrap: /[ab]+/ ['!'] ;\n", {'start': ('Wrap', [])}),
    'chain': ("start::Leafy::Mid::Root: x=/[ab]/ more=[sub] ;\nsub::Mid::Root: y=/[ab]/ ;\n", {'start': ('Leafy', ['Mid', 'Root']), 'sub': ('Mid', ['Root'])}),
    'mixed': ("start::Top: head=plain rest+={node}* ;\nplain: /[a-b]/ ;\nnode::Nd: '-' val=plain kids+={node} ;\n", {'start': ('Top', []), 'node': ('Nd', [])}),
    'override': ("start::Outer: inner=wrapped ;\nwrapped: '(' @:core ')' | core ;\ncore::Core: c=/[ab]/ ;\n", {'start': ('Outer', []), 'core': ('Core', [])}),
    # nodes inside lists whose FIRST element is a plain token, and a typed rule without names that starts with a literal
    'token_first_lists': ("start::Top: first=item rest+={ ',' item } ;\nitem::Item: /[ab]/ ;\n", {'start': ('Top', []), 'item': ('Item', [])}),
    'literal_first_noname': ("start::Grp: '[' {item} ']' ;\nitem::Item: /[ab]/ ;\n", {'start': ('Grp', []), 'item': ('Item', [])}),
    # falsy but present values: a named closure that matches nothing ([]), a named pattern that matches '' (classes from the generated module)
    'falsy_values': ("start::Call: name=/[a-z]/ '(' args={arg} ')' [mark=mark] ;\narg::Arg: /[0-9]/ ;\nmark::Mark: bangs=/!*/ ';' ;\n",
                     {'start': ('Call', []), 'arg': ('Arg', []), 'mark': ('Mark', [])}),
    # builtin type names on rules that HAVE named elements (the value is still converted by the builtin, never wrapped in a class of that name)
    'builtin_named': ("start::Top: s=span f=[flag] ;\nspan::tuple: lo=/[0-9]/ hi=/[0-9]/ ;\nflag::bool: v='!' ;\n", {'start': ('Top', [])}),
    # values converted by DIFFERENT numeric builtins that are equal across types (1 == 1.0) and flow through the same untyped rule: compared type-strictly
    'builtin_mixed': ("start::Top: vals={val}+ $ ;\nval: real | num ;\nreal::float: /[0-9]+[.][0-9]/ ;\nnum::int: /[0-9]+/ ;\n", {'start': ('Top', [])}),
    'builtin': ("start::Num: n=num rest=[word] ;\nnum::int: /[0-9]+/ ;\nword::str: /[a-z]+/ ;\n", {'start': ('Num', [])}),
}
WARM = ['', 'a', '1 1.0', '1.0 1', '0 0.0', '1.0 0', '10 1', '12', '12!', '1', '1 2', '12 !', 'f()', 'f(1)', 'f();', 'f()!;', 'a,b', '[a]', '[ab', '[]', 'a,', 'a1', 'a1b', 'ab', 'a b', 'a12', '1', 'ab!', '(a)', 'a-b', 'a-b-a', 'b', 'aa', '12a', '1a', 'a 1', '((a', 'a-a', 'a1 2', 'ab1']


def make_model(spec):
    import tatsu
    from tatsu.exceptions import FailedParse
    from tatsu.objectmodel import Node
    from tatsu.walkers import BreadthFirstWalker, DepthFirstWalker, NodeWalker
    from ..pegbody import Engine, norm
    gtext, types = GRAMMARS[spec['grammar']]
    eng = Engine(gtext)
    model = eng.model
    n = spec['n']
    # classes from the generated model module (modelgen) for the equal-tree comparison; the module must be a real, registered module
    # (dataclasses resolve string annotations through sys.modules)
    import sys
    import types as _types
    gen_classes = None
    gen_error = None
    try:
        src = tatsu.to_python_model(gtext, name='VT' + spec['grammar'].title().replace('_', ''))
        modname = 'vt_generated_model_' + spec['grammar']
        mod = _types.ModuleType(modname)
        sys.modules[modname] = mod
        exec(compile(src, f'<generated model {modname}>', 'exec'), mod.__dict__)  # noqa: S102
        gen_classes = [v for k, v in vars(mod).items() if isinstance(v, type) and issubclass(v, Node) and v is not Node and not k.startswith('_')
                       and v.__module__ == modname]
    except Exception as e:  # noqa: BLE001
        gen_error = type(e).__name__ + ': ' + str(e)[:120]
    typenames = {t for t, _ in types.values()}

    def plainify(x):
        """object model -> the plain-AST shape it must mirror"""
        if isinstance(x, Node):
            pub = {k: v for k, v in vars(x).items() if not k.startswith('_') and k not in ('ast', 'ctx', 'parseinfo')}
            if pub:
                return {k: plainify(v) for k, v in pub.items()}
            return plainify(x.ast)
        if isinstance(x, dict):
            return {k: plainify(v) for k, v in x.items() if k not in ('parseinfo',)}
        if isinstance(x, (list, tuple)):
            return [plainify(v) for v in x]
        return x

    def mirrors(got, want):
        """declared classes may carry extra attributes inherited from a declared base class: they must be None; everything the AST has must be there"""
        if isinstance(want, dict) and isinstance(got, dict):
            for k, v in want.items():
                if k not in got or not mirrors(got[k], v):
                    return False
            return all(got[k] is None for k in got if k not in want)
        if isinstance(want, list) and isinstance(got, list):
            return len(want) == len(got) and all(mirrors(a, b) for a, b in zip(got, want))
        return got == want

    def nodes_in(x, out):
        if isinstance(x, Node):
            out.append(x)
        elif isinstance(x, dict):
            for v in x.values():
                nodes_in(v, out)
        elif isinstance(x, (list, tuple)):
            for v in x:
                nodes_in(v, out)

    def held_by(node):
        out = []
        for k, v in vars(node).items():
            if k.startswith('_') or k in ('ctx', 'parseinfo'):
                continue
            nodes_in(v, out)
        return out

    def all_nodes(root):
        seen, todo = [], [root] if isinstance(root, Node) else []
        if not isinstance(root, Node):
            nodes_in(root, todo)
        while todo:
            nd = todo.pop()
            if any(nd is s for s in seen):
                continue
            seen.append(nd)
            todo.extend(held_by(nd))
        return seen

    def structural(t, plain_ast):
        """the relation between the object model and the plain AST; returns None or a reason"""
        try:
            m = model.parse(t, asmodel=True)
        except FailedParse:
            return 'asmodel-rejects'
        except Exception as e:  # noqa: BLE001
            return 'asmodel-exception ' + type(e).__name__ + ': ' + str(e)[:60]
        want = plain_ast
        if spec['grammar'] == 'builtin':
            want = dict(plain_ast)
            want['n'] = int(plain_ast['n'])
        if spec['grammar'] == 'builtin_named':
            # the builtins convert the rule's AST: tuple(dict) is the tuple of its keys, bool(dict) is its truth value
            want = dict(plain_ast)
            want['s'] = list(tuple(plain_ast['s']))
            want['f'] = bool(plain_ast['f']) if plain_ast['f'] is not None else None
        if spec['grammar'] == 'builtin_mixed':
            want = {'vals': [(float(s) if '.' in s else int(s)) for s in plain_ast['vals']]}

            def strict(v):
                if isinstance(v, dict):
                    return {k: strict(x) for k, x in v.items()}
                if isinstance(v, (list, tuple)):
                    return [strict(x) for x in v]
                return [type(v).__name__, repr(v)]
            if strict(plainify(m)) != strict(want):
                return f'model-differs-from-ast (type-strict) {plainify(m)!r} != {want!r}'[:150]
        if plainify(m) != want:
            return f'model-differs-from-ast {plainify(m)!r} != {want!r}'[:150]
        nodes = all_nodes(m)
        for nd in nodes:
            tn = type(nd).__name__
            if tn not in typenames:
                return 'unexpected-class ' + tn
            decl = [b for t_, b in types.values() if t_ == tn][0]
            mro = [c.__name__ for c in type(nd).__mro__]
            pos = -1
            for b in decl:
                if b not in mro or mro.index(b) < pos:
                    return f'bases {tn}: {mro[:5]} declared {decl}'
                pos = mro.index(b)
            kids = nd.children()
            for h in held_by(nd):
                if not any(h is k for k in kids):
                    return f'child-missing {tn} -> {type(h).__name__}'
                if h.parent is not nd:
                    return f'parent-wrong {type(h).__name__}.parent is {type(h.parent).__name__}'
            for k in kids:
                if not any(k is h for h in held_by(nd)):
                    return f'extra-child {tn} -> {type(k).__name__}'
        if isinstance(m, Node):
            for W in (DepthFirstWalker, BreadthFirstWalker):
                visited = []

                class Wk(W):
                    def walk_Node(self, node, *a, **kw):
                        visited.append(node)
                        return node
                Wk().walk(m)
                if len(visited) != len(nodes) or not all(any(v is x for x in nodes) for v in visited):
                    return f'{W.__name__} visited {len(visited)} of {len(nodes)} nodes'
        if gen_error is not None:
            return 'generated-model-module-does-not-load ' + gen_error
        if gen_classes is not None:
            try:
                m2 = model.parse(t, semantics=tatsu.semantics.ModelBuilderSemantics(constructors=gen_classes))
            except Exception as e:  # noqa: BLE001
                return 'generated-classes-exception ' + type(e).__name__ + ': ' + str(e)[:60]
            if not mirrors(plainify(m2), want):
                return f'generated-classes-tree-differs {plainify(m2)!r} != {want!r}'[:160]
            names1 = sorted(type(x).__name__ for x in nodes)
            names2 = sorted(type(x).__name__ for x in all_nodes(m2))
            if names1 != names2:
                return f'generated-classes-types {names2} != {names1}'
        return None

    def body(args):
        t = mktext(args)
        try:
            real = eng.parse(t)
        except Exception as e:  # noqa: BLE001
            return False, 'exception', type(e).__name__ + ': ' + str(e)[:80]
        if real[0] == 'fail':
            if not _tracing():
                try:
                    model.parse(t, asmodel=True)
                    return False, 'asmodel-accepts-more', None
                except FailedParse:
                    pass
                except Exception as e:  # noqa: BLE001
                    return False, 'asmodel-exception', repr(e)[:80]
            return True, 'fail' if real[1] > 0 else 'triv:fail0', [real[1]]
        ast = norm(real[1])
        if not _tracing():
            why = structural(t, ast)
            if why is not None:
                return False, why.split(' ')[0], why
        return True, 'ok', [real[2], skel(ast)]

    body.explain = lambda args: f'grammar:\n{gtext}text={mktext(args)!r}\nplain={eng.parse(mktext(args))!r}\nrelation={structural(mktext(args), norm(eng.parse(mktext(args))[1])) if eng.parse(mktext(args))[0] == "ok" else None}'
    body.warm = [tuple(map(ord, w)) for w in WARM if len(w) == n]
    return body


def native_checks():
    """class synthesis is keyed by name in a process-wide registry: a second grammar declaring the same type name with another base"""
    import tatsu
    known = tolerated('C07')
    out = []
    g1 = "start::VtShared::VtBaseOne: x='a' ;\n"
    g2 = "start::VtShared::VtBaseTwo: x='a' ;\n"
    m1 = tatsu.compile(g1, name='S1').parse('a', asmodel=True)
    m2 = tatsu.compile(g2, name='S2').parse('a', asmodel=True)
    mro2 = [c.__name__ for c in type(m2).__mro__]
    ok = 'VtBaseTwo' in mro2
    out.append({'name': 'same_type_name_other_base_in_second_grammar', 'ok': ok, 'known': None if ok or 'F29' not in known else 'F29', 'detail': mro2[:4]})
    return out


def plan(tier, seed):
    obs = []
    maxn = 3 if tier == 'quick' else 4
    for gn in GRAMMARS:
        for n in (range(0, maxn + 1) if gn != 'builtin_mixed' else (3, 5)):
            pre = ' and '.join(f'c{i} < 128' for i in range(n)) if gn == 'builtin' else ''
            if gn == 'builtin_mixed':
                # stated: digits 0/1, the decimal point and the space only (int()/float() realise every digit; the interesting texts need 5 characters)
                pre = ' and '.join((f'c{i} == 32' if (n == 5 and i == 1) else f'(c{i} == 48 or c{i} == 49 or c{i} == 46 or c{i} == 32)') for i in range(n))
            obs.append(Ob(name=f'{gn}_L{n}', factory='vt.props.c07:make_model', spec={'grammar': gn, 'n': n}, params=[(f'c{i}', 0, UNI) for i in range(n)],
                          budget={0: 40, 1: 40, 2: 90, 3: 400, 4: 2000, 5: 600}[n], group=gn, extra_pre=pre, require_tags=('ok',) if (n == 2 and gn not in ('override', 'falsy_values')) or (n == 3 and gn == 'falsy_values') else ()))
    return {
        'obligations': obs,
        'native': native_checks,
        'level': 'other',
        'programs': len(GRAMMARS),
        'explanation': 'Typed grammars (single types, Base::Derived chains, builtin type names, rules with and without named elements, nodes inside closures, optionals and '
                       'overrides). The symbolic stage runs the real plain parse on a text of n symbolic code points and so decides WHICH parse shapes exist (confirmed '
                       'over all paths = every text of that length falls in one of them). On the solver-chosen witness of each path the real model-building parse runs '
                       'natively and the structural relation is checked: accepted iff the plain parse accepts; attributes == AST keys with corresponding values (ast '
                       'attribute when there are no names; builtin conversion); class name and declared bases in the MRO; every node held in an attribute (directly or in '
                       'lists) is in children() of its holder and names it as parent; depth-first and breadth-first walkers visit each node exactly once; classes '
                       'exec\'d from the generated model module give an equal tree.',
        'functions_encoded': ['tatsu.objectmodel.builder:ModelBuilderSemantics._default/ModelBuilder._get_constructor/_instanceof', 'tatsu.objectmodel.synth:synthesize/SynthNode.__post_init__',
                              'tatsu.objectmodel.node:Node.children/_cached_children/parent', 'tatsu.objectmodel.basenode:BaseNode.__post_init__/__pub__', 'tatsu.walkers:DepthFirstWalker/BreadthFirstWalker',
                              'tatsu.ngcodegen.ngmodel_gen:modelgen', 'tatsu.api.api:to_python_model'],
        'bounds': f'{len(GRAMMARS)} typed grammars, text length 0..{maxn} over all Unicode (ASCII for the builtin-type grammar: int() realises digits)',
        'outside': 'longer texts; user-supplied constructors with side effects; the structural relation is checked once per parse shape (on the witness), not symbolically',
        'assumptions': ['the plain AST is the reference for the object model (its own conformance is C01)'],
    }
