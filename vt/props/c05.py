"""C05 — a cut commits within its documented scope and nowhere else."""
from __future__ import annotations

from ..grammars import A, AND, C, CUT, EOF_, GATHER, GRP, JOIN, N, NOT, OPT, REP, REP1, S, T
from ..runner import Ob
from .c01 import FUNCS as C01_FUNCS

ALPHA = 0x110000

# skeletons without cuts; a cut is inserted at every position of every sequence
SKELETONS = [
    ('choice3', [('start', A(S(T('a'), T('b'), T('c')), S(T('a'), T('b')), T('a')))]),
    ('optional', [('start', S(OPT(S(T('a'), T('b'))), T('a'), OPT(T('c'))))]),
    ('closure', [('start', S(REP(S(T('a'), T('b'))), T('a'), T('c')))]),
    ('closure_plus', [('start', S(REP1(S(T('a'), T('b'))), OPT(S(T('a'), T('c')))))]),
    ('join', [('start', S(JOIN(T(','), S(T('a'), T('b'))), OPT(T(','))))]),
    ('join_plus', [('start', A(S(JOIN(T(','), S(T('a'), OPT(T('b'))), True), T('c')), S(T('a'), T(','))))]),
    ('gather', [('start', A(S(GATHER(T(','), T('a'), True), T('b')), S(T('a'), T(','), T('c'))))]),
    ('nested_choice_in_group', [('start', A(S(GRP(A(S(T('a'), T('b')), S(T('a'), T('c')))), T('d')), S(T('a'), OPT(T('b')))))]),
    ('rule_body', [('start', A(S(C('r'), T('c')), S(T('a'), OPT(T('c'))))), ('r', S(T('a'), T('b')))]),
    ('rule_in_closure', [('start', S(REP(C('r')), T('a'), OPT(T('c')))), ('r', S(T('a'), T('b')))]),
    ('lookahead', [('start', A(S(AND(S(T('a'), T('b'))), T('a'), T('b')), S(T('a'), T('c'))))]),
    ('neg_lookahead', [('start', A(S(NOT(S(T('a'), T('b'))), T('a'), T('c')), S(T('a'), T('b'))))]),
    ('closure_then_cut', [('start', A(S(REP(T('a')), T('b'), T('c')), S(T('a'), T('b'))))]),
    ('named_option', [('start', A(S(N('x', T('a')), N('y', T('b'))), N('z', S(T('a'), T('c')))))]),
    ('optional_in_option', [('start', A(S(OPT(S(T('a'), T('b'))), T('c')), S(T('a'), T('b'), T('a'))))]),
]


def placements(e):
    """yield copies of e with one cut inserted at each position >= 1 of each sequence (and at the end)"""
    k = e[0]
    if k == 'seq':
        xs = e[1]
        for i in range(1, len(xs) + 1):
            yield ('seq', xs[:i] + [CUT] + xs[i:])
        for i, x in enumerate(xs):
            for v in placements(x):
                yield ('seq', xs[:i] + [v] + xs[i + 1:])
    elif k == 'alt':
        for i, x in enumerate(e[1]):
            for v in placements(x):
                yield ('alt', e[1][:i] + [v] + e[1][i + 1:])
            if x[0] != 'seq':
                yield ('alt', e[1][:i] + [('seq', [x, CUT])] + e[1][i + 1:])
    elif k in ('grp', 'opt', 'rep', 'rep1', 'and', 'not'):
        for v in placements(e[1]):
            yield (k, v)
        if e[1][0] not in ('seq', 'alt'):
            yield (k, ('seq', [e[1], CUT]))
    elif k in ('named', 'namedl'):
        for v in placements(e[2]):
            yield (k, e[1], v)
    elif k == 'join':
        for v in placements(e[2]):
            yield ('join', e[1], v, e[3], e[4])
        if e[2][0] not in ('seq', 'alt'):
            yield ('join', e[1], ('seq', [e[2], CUT]), e[3], e[4])


def family():
    out = []
    for name, rules in SKELETONS:
        k = 0
        for ri, (rn, e) in enumerate(rules):
            for v in placements(e):
                rs = list(rules)
                rs[ri] = (rn, v)
                out.append((f'{name}_p{k}', rs))
                k += 1
    return out


SETTINGS = {'nameguard': False, 'whitespace': ''}
REFSET = {'nameguard': False, 'whitespace': None}
WARM = ['', 'a', 'ab', 'abc', 'ac', 'abab', 'abac', 'a,a', 'a,ab', 'ab,a', 'a,', 'abd', 'acd', 'aba', 'ababc', 'a,a,b', 'abaca']
BUDGET = {0: 40, 1: 40, 2: 60, 3: 150, 4: 600, 5: 2400}


def plan(tier, seed):
    fam = family()
    if tier == 'quick':
        # every skeleton's placements, bounded: the first 3 placements of each skeleton + a seeded extra one
        import random
        rng = random.Random(seed)
        byskel: dict[str, list] = {}
        for nm, rs in fam:
            byskel.setdefault(nm.rsplit('_p', 1)[0], []).append((nm, rs))
        sel = []
        for sk, items in byskel.items():
            pick = items[:3]
            rest = items[3:]
            if rest:
                pick.append(rng.choice(rest))
            sel += pick
        fam = sel
        lengths = [0, 1, 2, 3, 4]
    else:
        lengths = [0, 1, 2, 3, 4, 5]
    obs = []
    for nm, rs in fam:
        for n in lengths:
            spec = {'grammar': nm, 'rules': rs, 'n': n, 'settings': SETTINGS, 'ref': REFSET, 'nocut': True, 'warm': WARM}
            obs.append(Ob(name=f'{nm}_L{n}', factory='vt.pegbody:make_peg', spec=spec, params=[(f'c{i}', 0, ALPHA) for i in range(n)],
                          budget=BUDGET[n], group=nm))
    return {
        'obligations': obs,
        'level': 'other',
        'programs': len(fam),
        'explanation': 'A cut is inserted at every position of every sequence of 15 skeleton grammars (choice options, optionals, closure/positive '
                       'closure/join/gather bodies, nested choice in a group, rule bodies called from choices and closures, lookaheads). For each '
                       'placement and text length the real engine, the reference evaluator (which implements exactly the scopes of the statement) '
                       'and the same grammar with all cuts erased are executed symbolically on a text of symbolic code points: real == reference '
                       '(outcome, end, AST) and, wherever the grammar with cuts accepts, the cut-free grammar gives the same result.',
        'functions_encoded': C01_FUNCS + ['tatsu.contexts.core:ParserCore.cut', 'tatsu.contexts.state:ParseState.cutseen', 'tatsu.peg.choice:Choice._parse', 'tatsu.peg.syntax:Optional._parse',
                                         'tatsu.contexts.context:ParseContext.option/optional/repeat/isolate/closure/positive_closure'],
        'bounds': f'{len(fam)} cut placements; text length 0..{lengths[-1]} over all Unicode code points; nameguard off, whitespace "" '
                  '(cut logic does not depend on lexical settings); inputs long enough to reach iteration 2 of closures (abab, a,a,)',
        'outside': 'longer texts; other skeletons; interaction with whitespace/nameguard (C09) and with memo pruning at cuts (C04)',
        'assumptions': ['vt/refpeg.py implements the cut scopes of the property statement and docs/syntax.rst',
                        'CrossHair/z3 models (validated per path by native witness)'],
    }
