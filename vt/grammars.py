"""Grammar families in the refpeg tuple representation (rendered to TatSu text by refpeg.render_grammar).
Everything here is data: no import from tatsu."""
from __future__ import annotations

import itertools
import random

T = lambda s: ('tok', s)
P = lambda s: ('pat', s)
C = lambda n: ('call', n)
S = lambda *a: ('seq', list(a))
A = lambda *a: ('alt', list(a))
GRP = lambda e: ('grp', e)
OPT = lambda e: ('opt', e)
REP = lambda e: ('rep', e)
REP1 = lambda e: ('rep1', e)
JOIN = lambda s, e, plus=False: ('join', s, e, plus, True)
GATHER = lambda s, e, plus=False: ('join', s, e, plus, False)
AND = lambda e: ('and', e)
NOT = lambda e: ('not', e)
N = lambda n, e: ('named', n, e)
NL = lambda n, e: ('namedl', n, e)
OV = lambda e: ('ovr', e)
OVL = lambda e: ('ovrl', e)
CUT = ('cut',)
EOF_ = ('eof',)
VOID = ('void',)
FAILX = ('fail',)
DOT = ('dot',)
EMPTYC = ('emptyc',)
K = lambda s: ('const', s)
SKIP = lambda e: ('skipto', e)
SKIPG = lambda e: ('skipgrp', e)
INCL = lambda n: ('incl', n)

# --- hand-reviewed core family: one grammar per construct and per pair that shares a state frame -------------------
CORE: list[tuple[str, list]] = [
    ('seq_eof', [('start', S(T('a'), T('b'), EOF_))]),
    ('choice_order', [('start', S(A(T('a'), T('ab'), P('b+')), OPT(T('b'))))]),
    ('closure_greedy', [('start', S(REP(T('a')), OPT(T('a')), T('b')))]),
    ('closure_plus_choice', [('start', S(REP1(A(T('a'), T('b'))), EOF_))]),
    ('join_plus', [('start', S(JOIN(T(','), T('a'), True), EOF_))]),
    ('join_star_tail', [('start', S(JOIN(T(','), T('a')), OPT(T(',')), OPT(T('b'))))]),
    ('gather_plus', [('start', S(GATHER(T(','), T('a'), True), OPT(T('b'))))]),
    ('gather_star_pat', [('start', S(GATHER(T(','), P('a')), EOF_))]),
    ('lookaheads', [('start', A(S(AND(T('a')), P('..')), S(NOT(T('b')), DOT)))]),
    ('named_defaults', [('start', S(N('x', T('a')), N('y', OPT(T('b'))), NL('z', REP(T('c')))))]),
    ('named_choice', [('start', A(S(NL('x', T('a')), NL('x', T('b'))), N('y', T('b'))))]),
    ('named_twice', [('start', S(N('x', T('a')), OPT(N('x', T('a'))), OPT(N('x', T('b')))))]),
    ('override', [('start', A(S(OV(T('a')), T('b')), S(OVL(T('b')), OVL(T('a')))))]),
    ('rule_value_one_element', [('start', S(C('r'), C('r'))), ('r', A(T('a'), P('b')))]),
    ('rule_list_nested', [('start', S(GRP(C('r')), REP(C('r')))), ('r', S(T('a'), OPT(T('b'))))]),
    ('upper_rule_no_ws', [('start', S(T('a'), C('R'))), ('R', P('b'))]),
    ('lower_rule_ws', [('start', S(T('a'), C('r'))), ('r', P('b'))]),
    ('pattern_no_ws', [('start', S(T('a'), P('[ab]')))]),
    ('constant', [('start', S(T('a'), K('7'), OPT(T('b'))))]),
    ('void_first', [('start', S(VOID, T('a'), OPT(T('b'))))]),
    ('fail_option', [('start', A(S(T('a'), FAILX), S(T('a'), T('b')), T('b')))]),
    ('anychar', [('start', S(DOT, DOT, EOF_))]),
    ('skipto', [('start', S(SKIP(T('b')), OPT(T('a'))))]),
    ('empty_closure', [('start', S(EMPTYC, T('a'), OPT(T('b'))))]),
    ('optional_in_seq', [('start', S(OPT(S(T('a'), T('b'))), T('a')))]),
    ('group_splice', [('start', S(GRP(S(T('a'), OPT(T('b')))), GRP(A(T('a'), T('c')))))]),
    ('include', [('start', S(C('q'), OPT(N('y', T('a'))))), ('r', S(N('x', T('a')), OPT(T('b')))), ('q', S(INCL('r'), OPT(N('z', T('b')))))]),      # (start first: the FIRST rule is the default start rule)
    ('closure_nested', [('start', REP(S(REP1(T('a')), T(','))))]),
    ('names_in_closure', [('start', REP(A(NL('x', T('a')), N('y', T('b')))))]),
    ('named_rule_or_const', [('start', S(N('x', C('r')), N('y', C('r')))), ('r', A(T('a'), K('0')))]),
    ('skip_group', [('start', S(SKIPG(T('a')), T('b'), OPT(T('a'))))]),
    ('pattern_group', [('start', S(P('a(b)?'), OPT(T('b'))))]),
    ('eof_after_ws', [('start', S(REP(T('a')), EOF_))]),
    ('choice_in_closure_in_named', [('start', S(N('x', REP(A(T('a'), S(T('b'), T('a'))))), EOF_))]),
    ('leftrec_basic', [('start', S(C('e'), EOF_)), ('e', A(S(C('e'), T('+'), T('a')), T('a')))]),
    ('cut_in_optional', [('start', S(OPT(S(T('a'), CUT, T('b'))), T('a')))]),
    ('join_named', [('start', S(N('xs', JOIN(T(','), A(T('a'), T('b')), True)), EOF_))]),
    ('override_in_rule', [('start', S(C('r'), OPT(C('r')))), ('r', S(T('('), OV(P('a+')), T(')')))]),
    ('negative_then_closure', [('start', S(REP(S(NOT(T('b')), DOT)), OPT(T('b'))))]),
    ('positive_join_sep_seq', [('start', JOIN(GRP(S(T(','), OPT(T(',')))), T('a'), True))]),
    # joins/gathers whose element can match empty: an iteration that consumed a separator made progress
    ('join_nullable_elem', [('start', S(JOIN(T(','), REP(T('a')), True), EOF_))]),
    ('gather_nullable_elem', [('start', S(GATHER(T(','), REP(T('a'))), OPT(T('b'))))]),
    # a name / override bound to a group whose elements may match empty (closure zero times, empty join, empty pattern)
    ('named_group_with_closure', [('start', S(N('x', GRP(S(T('a'), REP(T('b'))))), OPT(T('c'))))]),
    ('override_group_with_join', [('start', S(OV(GRP(S(T('a'), JOIN(T(','), T('b')), P('c?')))), OPT(T('a'))))]),
    # a list-valued FIRST element (closure, list-valued rule) followed by an optional / choice group that contributes SEVERAL elements: the list stays one element
    ('closure_then_multi_optional', [('start', S(REP(T('a')), OPT(S(T('b'), T('c')))))]),
    ('rule_list_then_choice_group', [('start', S(C('r'), GRP(A(S(T('b'), T('c')), T('d'))))), ('r', S(T('a'), OPT(T('a'))))]),
    ('named_closure_then_group', [('start', S(N('x', GRP(S(REP(T('a')), GRP(S(T('b'), T('c')))))), OPT(T('d'))))]),
    # optionals whose body can match empty and can also FAIL (lookaheads): "nullable" is not "cannot fail"; a failing body means the optional is skipped
    ('optional_lookahead', [('start', S(T('a'), OPT(AND(T('b'))), OPT(T('c'))))]),
    ('optional_neg_lookahead', [('start', S(T('a'), OPT(NOT(T('b'))), A(T('b'), T('c'))))]),
    ('optional_lookahead_closure', [('start', S(N('x', T('a')), OPT(S(AND(T('b')), NL('y', REP(T('b'))))), EOF_))]),
    ('optional_group_lookahead_in_rule', [('start', S(C('r'), OPT(T('c')))), ('r', S(T('a'), OPT(GRP(AND(T('b'))))))]),
]

START_VARIANTS = [
    # (name, rules, start): parsed from a rule named as start=
    ('start_other_rule', [('start', S(T('a'), C('r'))), ('r', S(T('b'), OPT(T('a'))))], 'r'),
    ('start_upper_rule', [('start', S(T('a'), C('R'))), ('R', S(P('b'), OPT(T('a'))))], 'R'),
]


def core(names=None):
    return [(n, r) for n, r in CORE if names is None or n in names]


# --- skeleton enumeration for the thorough tier ----------------------------------------------------------------------
LEAVES = [T('a'), T('b'), T(','), P('a+'), P('[ab]'), VOID, EOF_, DOT, K('k'), EMPTYC]
UNARY = [OPT, REP, REP1, AND, NOT, GRP, lambda e: N('x', e), lambda e: NL('x', e), OV, OVL, SKIP]
BINARY = [lambda a, b: S(a, b), lambda a, b: A(a, b), lambda a, b: JOIN(a, b), lambda a, b: JOIN(a, b, True),
          lambda a, b: GATHER(a, b), lambda a, b: GATHER(a, b, True)]


def _term(e):
    return GRP(e) if e[0] in ('seq', 'alt', 'named', 'namedl', 'ovr', 'ovrl', 'and', 'not', 'skipto') else e


def enum_exprs(depth, leaves):
    if depth == 0:
        yield from leaves
        return
    yield from leaves
    sub = list(enum_exprs(depth - 1, leaves))
    for u in UNARY:
        for e in sub:
            yield u(_term(e))
    for b in BINARY:
        for x in sub:
            for y in sub:
                yield b(_term(x), _term(y))


def admissible(rules) -> bool:
    """Exclusions stated in DESIGN §4.1: valueless items in sequences, closures over nullable bodies, names in a rule body
    that is a bare optional/closure."""
    from .refpeg import G
    try:
        g = G(rules)
    except Exception:  # noqa: BLE001
        return False

    def valueless(e):
        k = e[0]
        if k in ('void', 'cut', 'eof', 'and', 'not', 'fail', 'skipgrp'):
            return True
        if k == 'call':
            return valueless(g.rules[e[1]]) if e[1] in g.rules else False
        if k in ('grp', 'opt'):
            return valueless(e[1])
        if k == 'seq':
            return all(valueless(x) for x in e[1])
        if k == 'alt':
            return any(valueless(x) for x in e[1])
        return False

    def maybe_valueless(e, seen=()):
        # can succeed without contributing a value (a skipped optional, a void, ...)
        k = e[0]
        if k in ('void', 'cut', 'eof', 'and', 'not', 'fail', 'skipgrp', 'opt'):
            return True
        if k == 'call':
            return e[1] in g.rules and e[1] not in seen and maybe_valueless(g.rules[e[1]], seen + (e[1],))
        if k == 'grp':
            return maybe_valueless(e[1], seen)
        if k == 'seq':
            return all(maybe_valueless(x, seen) for x in e[1])
        if k == 'alt':
            return any(maybe_valueless(x, seen) for x in e[1])
        return False

    def has_override(e):
        if isinstance(e, (tuple, list)):
            if len(e) and e[0] in ('ovr', 'ovrl'):
                return True
            return any(has_override(x) for x in e if isinstance(x, (tuple, list)))
        return False

    def has_valueless_part(e):
        # a value-less element inside the operand of a name/override (x=(() r)): the model keeps () there, see known finding F20
        k = e[0]
        if k == 'grp':
            return has_valueless_part(e[1])
        if k == 'seq':
            return any(valueless(x) or has_valueless_part(x) for x in e[1])
        if k == 'alt':
            return any(valueless(x) or has_valueless_part(x) for x in e[1])
        return False

    def ok(e, top=False):
        k = e[0]
        if k in ('rep', 'rep1'):
            if g.nullable(e[1]):
                return False
            return ok(e[1])
        if k == 'join':
            if g.nullable(e[2]) or g.nullable(e[1]):
                return False
            return ok(e[1]) and ok(e[2])
        if k == 'seq':
            for x in e[1]:
                if x[0] == 'call' and (valueless(x) or maybe_valueless(x)):
                    return False
                if x[0] in ('grp', 'opt') and x[1][0] == 'call' and (valueless(x[1]) or maybe_valueless(x[1])):
                    return False
                if _has_call(x) and x[0] in ('grp', 'alt') and maybe_valueless(x):
                    return False
            return all(ok(x) for x in e[1])
        if k == 'alt':
            return all(ok(x) for x in e[1])
        if k in ('grp', 'opt', 'and', 'not', 'skipto', 'skipgrp'):
            return ok(e[1])
        if k in ('named', 'namedl'):
            return ok(e[2]) and not valueless(e[2]) and not has_valueless_part(e[2]) and not has_override(e[2]) and not (e[2][0] == 'call' and maybe_valueless(e[2]))
        if k in ('ovr', 'ovrl'):
            return ok(e[1]) and not valueless(e[1]) and not has_valueless_part(e[1]) and not has_override(e[1]) and not (e[1][0] == 'call' and maybe_valueless(e[1]))
        if k == 'skipto' and g.nullable(e[1]):
            return False
        return True

    for n, e in rules:
        if e[0] in ('opt', 'rep', 'rep1', 'join'):
            s, l = g.names_in(e)
            if s or l:
                return False
        if not ok(e):
            return False
        if n in g.leftrec:
            return False
    return True


def _has_call(e):
    if isinstance(e, (tuple, list)):
        if len(e) and e[0] == 'call':
            return True
        return any(_has_call(x) for x in e if isinstance(x, (tuple, list)))
    return False


def enumerated(seed: int, count: int, depth: int = 2):
    """A seeded slice of the skeleton enumeration: a start rule of the given depth that CALLS one helper rule (lower- or upper-case name)."""
    from .refpeg import render_grammar
    rng = random.Random(seed)
    helper_bodies = [e for e in enum_exprs(1, LEAVES[:5]) if e[0] not in ('and', 'not')]
    out, seen = [], set()
    leaves = LEAVES + [C('r'), C('r')]
    pool1 = list(enum_exprs(1, leaves))
    with_call = [e for e in pool1 if _has_call(e)]
    tries = 0
    while len(out) < count and tries < count * 400:
        tries += 1
        b = rng.choice(BINARY + UNARY)
        if b in UNARY:
            e = b(_term(rng.choice(with_call)))
        else:
            x, y = rng.choice(with_call), rng.choice(pool1)
            if rng.random() < 0.5:
                x, y = y, x
            e = b(_term(x), _term(y))
        if rng.random() < 0.5:
            e = S(e, rng.choice([T('a'), T('b'), EOF_, OPT(T('a'))]))
        hname = rng.choice(['r', 'r', 'R'])
        rules = [('start', _rename(e, hname)), (hname, rng.choice(helper_bodies))]
        if not admissible(rules):
            continue
        txt = render_grammar(rules)
        if txt in seen:
            continue
        seen.add(txt)
        out.append((f'enum{seed}_{len(out)}', rules))
    return out


def _rename(e, hname):
    if e[0] == 'call':
        return ('call', hname)
    if isinstance(e, tuple):
        return tuple(_rename(x, hname) if isinstance(x, (tuple, list)) else x for x in e)
    if isinstance(e, list):
        return [_rename(x, hname) if isinstance(x, (tuple, list)) else x for x in e]
    return e
