"""Shared obligation body for the PEG properties: real TatSu engine vs the reference evaluator on one text."""
from __future__ import annotations

import warnings

from .harness import mktext, skel
from .refpeg import G, Fail, Ref, render_grammar

warnings.simplefilter('ignore')


def totuple(e):
    """JSON lists -> the tuple form refpeg expects (['seq', [..]] keeps its inner list)."""
    if isinstance(e, list) and e and isinstance(e[0], str) and e[0] in KINDS:
        k = e[0]
        if k in ('seq', 'alt'):
            return (k, [totuple(x) for x in e[1]])
        return tuple(totuple(x) if isinstance(x, list) else x for x in e)
    return e


KINDS = {'tok', 'pat', 'dot', 'void', 'fail', 'cut', 'eof', 'const', 'emptyc', 'seq', 'grp', 'skipgrp', 'alt', 'opt', 'rep',
         'rep1', 'join', 'and', 'not', 'named', 'namedl', 'ovr', 'ovrl', 'call', 'incl', 'skipto', 'meta', 'alert'}


def rules_of(spec):
    return [(n, totuple(e)) for n, e in spec['rules']]


def norm(v):
    """AST -> plain data: AST/dict -> dict without parseinfo, closedlist/list/tuple -> list."""
    if isinstance(v, dict):
        return {k: norm(x) for k, x in v.items() if k not in ('parseinfo', '__parseinfo__')}
    if isinstance(v, (list, tuple)) and not (isinstance(v, tuple) and v == ()):
        return [norm(x) for x in v]
    return v


class Engine:
    """The real side: a compiled grammar model parsed exactly as Grammar.parse does, plus the end position."""

    def __init__(self, gtext, settings=None, start=None, compile_settings=None):
        import tatsu
        self.gtext = gtext
        self.model = tatsu.compile(gtext, **(compile_settings or {}))
        self.settings = dict(settings or {})
        if start:
            self.settings['start'] = start
        self.with_pos = True
        try:
            self.parse('')
        except (AttributeError, TypeError):
            self.with_pos = False
        except Exception:  # noqa: BLE001
            pass           # (a tree on which even '' blows up: the obligation bodies report it)

    def parse(self, text, **more):
        """-> ('ok', ast, endpos) | ('fail', pos, error class name) ; other exceptions propagate"""
        from tatsu.exceptions import FailedParse
        settings = {**self.settings, **more}
        try:
            if self.with_pos:
                m = self.model.optimized()
                config = m.new_parse_config(**settings)
                ctx = m.newctx(asmodel=False)
                # what ParserEngine.parse does, keeping the end position before the context is reset
                with ctx.bound(text, config=config):
                    start = ctx.config.effective_start_rule_name() or 'start'
                    ast = ctx.find_rule(start)(ctx)
                    pos = ctx.pos
                return ('ok', ast, pos)
            return ('ok', self.model.parse(text, **settings), None)
        except FailedParse as e:
            return ('fail', e.pos, type(e).__name__)


class GenParser:
    """The generated-Python-parser side."""

    def __init__(self, gtext, settings=None, start=None, name='VT'):
        import tatsu
        self.src = tatsu.to_python_sourcecode(gtext, name=name)
        ns: dict = {}
        exec(compile(self.src, f'<generated {name}>', 'exec'), ns)  # noqa: S102
        self.cls = ns[f'{name}Parser']
        self.settings = dict(settings or {})
        if start:
            self.settings['start'] = start

    def parse(self, text, **more):
        from tatsu.exceptions import FailedParse
        try:
            return ('ok', self.cls().parse(text, **{**self.settings, **more}), None)
        except FailedParse as e:
            return ('fail', e.pos)


def strip_cuts(e):
    if isinstance(e, tuple):
        if e[0] == 'seq':
            return ('seq', [strip_cuts(x) for x in e[1] if x != ('cut',)])
        if e[0] == 'alt':
            return ('alt', [strip_cuts(x) for x in e[1]])
        return tuple(strip_cuts(x) if isinstance(x, tuple) else x for x in e)
    return e


def render_full(rules, decorators=None):
    """grammar text with rule decorators ({rule: ['name', 'nomemo', ...]})"""
    from .refpeg import render as rexp
    decorators = decorators or {}
    return ''.join(''.join(f'@{d}\n' for d in decorators.get(n, [])) + f'{n}: {rexp(e)} ;\n' for n, e in rules)


def make_peg(spec):
    """One text, several evaluations that must agree.
    spec: rules, directives, start, n, settings (parse-time settings of the real side), ref (settings of the reference, or
    False for none), gen (also the generated parser), nocut (also: cut-free grammar agrees wherever the grammar accepts),
    variants (list of extra parse-time settings: self-differential modulo parseinfo)."""
    directives = spec.get('directives', '')
    if 'gtext' in spec:      # raw grammar text; a reference only if the documented expansion is given as well ('ref_rules')
        rules = [(n, totuple(e)) for n, e in spec.get('ref_rules', [])]
        gtext = spec['gtext']
    else:
        rules = rules_of(spec)
        gtext = directives + render_full(rules, spec.get('decorators'))
    start = spec.get('start')
    eng = Engine(gtext, spec.get('settings'), start)
    use_ref = spec.get('ref', {}) is not False and ('gtext' not in spec or bool(rules))
    g = G(rules, **(spec.get('ref') or {})) if use_ref else None
    gen = GenParser(gtext, spec.get('settings'), start) if spec.get('gen') else None
    nocut = None
    if spec.get('nocut'):
        nocut = Engine(directives + render_grammar([(nm, strip_cuts(e)) for nm, e in rules]), spec.get('settings'), start)
    variants = spec.get('variants') or []
    n = spec['n']

    def reference(t):
        r = Ref(g, t)
        try:
            v, q = r.parse(start)
            return ('ok', v, q, r.pruned)
        except Fail:
            return ('fail',)

    def guarded(f, t, **kw):
        try:
            return f(t, **kw)
        except RecursionError:
            return ('recursion',)
        except Exception as e:  # noqa: BLE001
            return ('exception', type(e).__name__ + ': ' + str(e)[:100])

    def body(args):
        t = mktext(args)
        real = guarded(eng.parse, t)
        if real[0] not in ('ok', 'fail'):
            return False, 'real-' + real[0], real[1:]
        ast = norm(real[1]) if real[0] == 'ok' else None
        if use_ref:
            ref = reference(t)
            if real[0] == 'fail':
                if ref[0] != 'fail':
                    return False, 'real-rejects', [real[1], ref[2]]
            else:
                if ref[0] == 'fail':
                    return False, 'real-accepts', [real[2], skel(ast)]
                if real[2] is not None and real[2] != ref[2]:
                    return False, 'endpos', [real[2], ref[2]]
                if not (ast == ref[1]):
                    return False, 'ast', [skel(ast), skel(ref[1])]
        if gen is not None:
            other = guarded(gen.parse, t)
            if other[0] != real[0]:
                return False, 'gen-outcome', [real[0], other[0], other[1] if other[0] in ('exception',) else None]
            if real[0] == 'ok' and not (norm(other[1]) == ast):
                return False, 'gen-ast', [skel(ast), skel(norm(other[1]))]
            if real[0] == 'fail' and spec.get('gen_failpos') and other[1] != real[1]:
                return False, 'gen-failpos', [real[1], other[1]]
        # cut erasure: only claimed when no commit was used, i.e. the committed paths themselves parse the input
        if nocut is not None and real[0] == 'ok' and not (use_ref and ref[3]):
            other = guarded(nocut.parse, t)
            if other[0] != 'ok':
                return False, 'cut-changes-outcome', [other[0]]
            if not (norm(other[1]) == ast) or other[2] != real[2]:
                return False, 'cut-changes-result', [skel(ast), skel(norm(other[1]))]
        known_hit = None
        for i, v in enumerate(variants):
            other = guarded(eng.parse, t, **v)
            if other[0] != real[0]:
                return False, f'variant{i}-outcome', [real[0], other[0], other[1] if other[0] == 'exception' else None]
            if real[0] == 'fail' and spec.get('variant_errors'):
                # the failure position and the class of the error are part of the outcome
                if other[1] != real[1]:
                    return False, f'variant{i}-failure-position', [real[1], other[1]]
                if len(other) > 2 and len(real) > 2 and other[2] != real[2]:
                    if spec['variant_errors'] == 'F40-tolerated':
                        known_hit = 'F40'
                    else:
                        return False, f'variant{i}-error-class', [real[2], other[2], real[1]]
            if real[0] == 'ok' and (not (norm(other[1]) == ast) or other[2] != real[2]):
                return False, f'variant{i}-ast', [skel(ast), skel(norm(other[1]))]
        if known_hit:
            return True, 'known:' + known_hit, [real[1]]
        if real[0] == 'fail':
            return True, ('fail' if real[1] > 0 else 'triv:fail0'), [real[1]]
        return True, 'ok', [real[2], skel(ast)]

    def explain(args):
        t = mktext(args)
        out = [f'grammar:\n{gtext}settings={eng.settings}', f'text={t!r}', f'model    = {guarded(eng.parse, t)!r}']
        if use_ref:
            out.append(f'reference= {reference(t)!r}')
        if gen is not None:
            out.append(f'generated= {guarded(gen.parse, t)!r}')
        if nocut is not None:
            out.append(f'cut-free = {guarded(nocut.parse, t)!r}')
        for v in variants:
            out.append(f'{v} = {guarded(eng.parse, t, **v)!r}')
        return '\n'.join(out)

    body.explain = explain
    body.gtext = gtext
    warm = spec.get('warm') or ['', 'a', 'ab', 'a b', 'b', 'a,a', 'aa', 'ba', ' a ', 'abc', 'a,b', 'a+a', '(a)', 'abab', 'a,a,', 'x+x', 'x+x+x', 'abac']
    ws = []
    for w in warm:
        if len(w) == n:
            ws.append(tuple(map(ord, w)))
    for pad in ('a', 'b', ' '):
        ws.append(tuple(map(ord, ('ab'[:n]).ljust(n, pad))))
    body.warm = list(dict.fromkeys(ws))
    return body
