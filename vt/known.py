"""Access to /verif/known_findings.json (never written at run time)."""
from __future__ import annotations

import json
import os

ROOT = os.path.dirname(os.path.dirname(os.path.abspath(__file__)))
PATH = os.path.join(ROOT, 'known_findings.json')


def load() -> list[dict]:
    try:
        return json.load(open(PATH))['findings']
    except FileNotFoundError:
        return []


def tolerated(prop: str) -> dict[str, dict]:
    """ids of findings recorded as known (not fixed) for this property -> entry"""
    return {f['id']: f for f in load() if f.get('status') == 'known' and prop in f.get('properties', [f.get('property')])}
