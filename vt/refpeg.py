"""Reference PEG evaluator for TatSu's documented semantics (prototype).

Independent of tatsu's engine: operates on its own grammar representation (tuples) and only uses
`re`, str methods.  Written in plain Python so that CrossHair can execute it on symbolic text.
"""
from __future__ import annotations
import re

FAIL = 'FAIL'

class G:
    """Grammar: ordered rules {name: exp}; settings."""
    def __init__(self, rules, *, whitespace='default', nameguard=None, ignorecase=False,
                 namechars='', comments=None, eol_comments=None, keywords=(), name_rules=(),
                 lrec=True, leaders=None, rule_params=None):
        self.rules = dict(rules)
        self.order = [n for n, _ in rules]
        if whitespace == 'default':
            self.ws = re.compile(r'(?m)\s+')
        elif not whitespace:
            self.ws = None
        else:
            self.ws = re.compile(whitespace)
        self.namechars = set(namechars or '')
        self.nameguard = nameguard if nameguard is not None else (bool(self.ws) or bool(namechars))
        if namechars:
            self.nameguard = True
        self.ignorecase = ignorecase
        self.comments = re.compile(comments) if comments else None
        self.eol_comments = re.compile(eol_comments) if eol_comments else None
        self.keywords = {k.upper() for k in keywords} if ignorecase else set(keywords)
        self.name_rules = set(name_rules)
        self.lrec = lrec
        self.rule_params = dict(rule_params or {})   # name -> (positional params, keyword params)
        # quirk switch (known finding F15): seed growing only at these statically chosen rules instead of at whichever rule of the
        # cycle is entered first
        self.leaders = set(leaders) if leaders is not None else None
        self._analyse()

    # ---- static analysis (independent of tatsu) -------------------------------------------
    def names_in(self, e):
        k = e[0]
        if k in ('named', 'namedl'):
            s, l = self.names_in(e[2])
            return (s | {e[1]}, l) if k == 'named' else (s, l | {e[1]})
        if k in ('seq', 'alt'):
            s, l = set(), set()
            for x in e[1]:
                a, b = self.names_in(x)
                s |= a; l |= b
            return s, l
        if k in ('grp', 'opt', 'rep', 'rep1', 'and', 'not', 'ovr', 'ovrl', 'skipto', 'skipgrp'):
            return self.names_in(e[1])
        if k == 'join':
            s1, l1 = self.names_in(e[1]); s2, l2 = self.names_in(e[2])
            return s1 | s2, l1 | l2
        if k == 'incl':
            return self.names_in(self.rules[e[1]])
        return set(), set()

    def nullable(self, e, seen=()):
        k = e[0]
        if k in ('tok', 'dot', 'fail', 'meta'): return False
        if k == 'pat': return bool(re.compile(e[1]).match(''))
        if k in ('void', 'cut', 'const', 'emptyc', 'opt', 'rep', 'and', 'not', 'eof', 'alert'): return True
        if k == 'seq': return all(self.nullable(x, seen) for x in e[1])
        if k == 'alt': return any(self.nullable(x, seen) for x in e[1])
        if k in ('grp', 'rep1', 'named', 'namedl', 'ovr', 'ovrl', 'skipgrp'):
            return self.nullable(e[-1], seen)
        if k == 'skipto': return self.nullable(e[1], seen)
        if k == 'join': return (not e[3]) or self.nullable(e[2], seen)
        if k == 'call':
            if e[1] in seen: return False
            return self.nullable(self.rules[e[1]], seen + (e[1],))
        if k == 'incl': return self.nullable(self.rules[e[1]], seen)
        raise ValueError(k)

    def leftcalls(self, e):
        """rules callable at the same position as the start of e"""
        k = e[0]
        if k == 'call': return {e[1]}
        if k == 'seq':
            out = set()
            for x in e[1]:
                out |= self.leftcalls(x)
                if not self.nullable(x): break
            return out
        if k == 'alt':
            out = set()
            for x in e[1]: out |= self.leftcalls(x)
            return out
        if k in ('grp', 'opt', 'rep', 'rep1', 'and', 'not', 'named', 'namedl', 'ovr', 'ovrl', 'skipto', 'skipgrp'):
            return self.leftcalls(e[-1])
        if k == 'join':
            out = self.leftcalls(e[2])
            if self.nullable(e[2]): out |= self.leftcalls(e[1])
            return out
        if k == 'incl': return self.leftcalls(self.rules[e[1]])
        return set()

    def _analyse(self):
        graph = {n: self.leftcalls(e) for n, e in self.rules.items()}
        self.leftgraph = graph
        def reach(a):
            seen, st = set(), list(graph[a])
            while st:
                v = st.pop()
                if v in seen: continue
                seen.add(v); st.extend(graph.get(v, ()))
            return seen
        self.reach = {n: reach(n) for n in graph}
        self.leftrec = {n for n in graph if n in self.reach[n]}


class Scope:
    __slots__ = ('cut',)
    def __init__(self): self.cut = False


class Fail(Exception):
    def __init__(self, committed=False):
        self.committed = committed


class SemanticFailure(Fail):
    """raised by an action hook: the invocation fails like a syntax mismatch"""


def add_single(env, name, v):
    if name not in env or env[name] is None:
        env[name] = v
    elif isinstance(env[name], OpenList):
        env[name] = OpenList([*env[name], v])
    else:
        env[name] = OpenList([env[name], v])

def add_list(env, name, v):
    cur = env.get(name)
    if cur is None:
        env[name] = OpenList([v])
    elif isinstance(cur, OpenList):
        env[name] = OpenList([*cur, v])
    else:
        env[name] = OpenList([cur, v])

class OpenList(list):
    """a list created by accumulation (not a closure result)"""


def items_value(items):
    if not items: return None
    if len(items) == 1: return items[0]
    return list(items)


OV = '@'

class Ref:
    def __init__(self, g: G, text: str, actions=None):
        self.g = g
        self.spanlog = []        # (rule, start after leading whitespace, end, value) of every successful rule evaluation
        self.actions = actions   # semantic actions: callable(rule_name, ast, params, kwparams) -> value ; may raise
        self.t = text
        self.n = len(text)
        self.seeds = {}      # (rule, pos) -> result for left recursion
        self.depth = 0
        self.pruned = False  # a commit was used: some alternative/ending was suppressed because of a cut

    # ---------------- lexical layer ----------------
    def skipre(self, rx, p):
        moved = False
        while True:
            m = rx.match(self.t, p)
            if not m: break
            q = m.end()
            if q == p: break  # empty match: tatsu would loop? it re-matches at same pos forever -> guard
            p = q; moved = True
        return p, moved

    def next_token(self, p):
        g = self.g
        while True:
            q = p
            if g.ws is not None: p, _ = self.skipre(g.ws, p)
            if g.eol_comments is not None:
                while True:
                    p2, moved = self.skipre(g.eol_comments, p)
                    if not moved: break
                    p = p2
                    if g.ws is not None: p, _ = self.skipre(g.ws, p)
            if g.comments is not None: p, _ = self.skipre(g.comments, p)
            if p == q: return p

    def is_name_char(self, c): return c.isalnum() or c in self.g.namechars
    def is_name(self, s):
        return bool(s) and (s[0].isalpha() or s[0] in self.g.namechars) and all(self.is_name_char(c) for c in s[1:])

    def token(self, tok, p):
        seg = self.t[p:p + len(tok)]
        ok = (seg.lower() == tok.lower()) if self.g.ignorecase else (seg == tok)
        if not ok: return None
        q = p + len(tok)
        if self.g.nameguard and q < self.n and self.is_name_char(self.t[q]) and self.is_name(tok):
            return None
        return q

    # ---------------- expressions ----------------
    # ev returns (pos, items, env) or raises Fail(committed)
    def ev(self, e, p, sc: Scope):
        k = e[0]
        t = self.t
        if k == 'tok':
            p = self.next_token(p)
            q = self.token(e[1], p)
            if q is None: raise Fail(sc.cut)
            return q, [e[1]], {}
        if k == 'pat':
            m = re.compile(e[1]).match(t, p)
            if not m: raise Fail(sc.cut)
            gs = m.groups(default='')
            v = gs[0] if len(gs) >= 1 else m.group()
            return m.end(), [v], {}
        if k == 'dot':
            if p >= self.n: raise Fail(sc.cut)
            return p + 1, [t[p]], {}
        if k == 'void':
            return self.next_token(p), [], {}
        if k == 'fail':
            raise Fail(sc.cut)
        if k == 'cut':
            sc.cut = True
            return p, [], {}
        if k == 'eof':
            p = self.next_token(p)
            if p < self.n: raise Fail(sc.cut)
            return p, [], {}
        if k == 'const':
            return self.next_token(p), [const_value(e[1])], {}
        if k == 'emptyc':
            return p, [[]], {}
        if k == 'seq':
            items, env = [], {}
            for x in e[1]:
                try:
                    p, it, en = self.ev(x, p, sc)
                except Fail as f:
                    raise Fail(sc.cut or f.committed)
                items += it
                merge_env(env, en)
            merge_env_defaults(env, self.defaults(e))
            return p, items, env
        if k == 'grp':
            return self.ev(e[1], p, sc)        # transparent for cut
        if k == 'skipgrp':
            q, _, _ = self.ev(e[1], p, sc)
            return q, [], {}
        if k == 'alt':
            for x in e[1]:
                s2 = Scope()
                try:
                    q, it, en = self.ev(x, p, s2)
                except Fail as f:
                    if f.committed or s2.cut:   # committed: choice fails; no leak
                        self.pruned = True
                        raise Fail(False)
                    continue
                defs = self.defaults(x)
                merge_env_defaults(en, defs)
                return q, it, en
            raise Fail(False)
        if k == 'opt':
            s2 = Scope()
            try:
                return self.ev(e[1], p, s2)
            except Fail as f:
                if f.committed or s2.cut:
                    self.pruned = True
                    raise Fail(False)
                return p, [], {}
        if k in ('rep', 'rep1'):
            return self.closure(e[1], None, p, positive=(k == 'rep1'), keepsep=False)
        if k == 'join':
            return self.closure(e[2], e[1], p, positive=e[3], keepsep=e[4])
        if k == 'and':
            s2 = Scope()
            try:
                self.ev(e[1], p, s2)
            except Fail:
                raise Fail(sc.cut)
            return p, [], {}
        if k == 'not':
            s2 = Scope()
            try:
                self.ev(e[1], p, s2)
            except Fail:
                return p, [], {}
            raise Fail(sc.cut)
        if k == 'named':
            q, it, en = self.ev(e[2], p, sc)
            en = dict(en); add_single(en, e[1], items_value(it))
            return q, it, en
        if k == 'namedl':
            q, it, en = self.ev(e[2], p, sc)
            en = dict(en); add_list(en, e[1], items_value(it))
            return q, it, en
        if k == 'ovr':
            q, it, en = self.ev(e[1], p, sc)
            en = dict(en); add_single(en, OV, items_value(it))
            return q, it, en
        if k == 'ovrl':
            q, it, en = self.ev(e[1], p, sc)
            en = dict(en); add_list(en, OV, items_value(it))
            return q, it, en
        if k == 'call':
            try:
                q, v = self.call(e[1], p)
            except Fail:
                raise Fail(sc.cut)
            return q, [v], {}
        if k == 'incl':
            return self.ev(self.g.rules[e[1]], p, sc)
        if k == 'skipto':
            while p < self.n:
                s2 = Scope()
                try:
                    self.ev(e[1], p, s2)
                    break
                except Fail:
                    pass
                q = self.next_token(p)
                p = q if q != p else p + 1
            try:
                return self.ev(e[1], p, sc)
            except Fail as f:
                raise Fail(sc.cut or f.committed)
        raise ValueError(k)

    def closure(self, body, sep, p, positive, keepsep, first_scope=None):
        """{x} = B -> x B | eps ; s%{e}+ = e {s ~ e} ; s%{e} = s%{e}+ | {}"""
        if sep is not None and not positive:
            # option 1 of the implicit choice  s%{e}+ | {} : a cut passed by the first element commits that option
            s0 = Scope()
            try:
                return self.closure(body, sep, p, True, keepsep, first_scope=s0)
            except Fail as f:
                if f.committed or s0.cut:
                    self.pruned = True
                    raise Fail(False)
                return p, [[]], {}
        out, env = [], {}
        count = 0
        if sep is not None or positive:
            # mandatory first element: an iteration of its own (its cut does not leak to the enclosing option)
            s1 = first_scope if first_scope is not None else Scope()
            try:
                q, it, en = self.ev(body, p, s1)
            except Fail as f:
                raise Fail(bool(first_scope is not None and (f.committed or s1.cut)))
            out.append(items_value(it)); merge_env(env, en); p = q; count = 1
        while True:
            s2 = Scope()
            q = p
            try:
                if sep is not None:
                    q, sit, sen = self.ev(sep, q, s2)
                    s2.cut = True
                    sv = items_value(sit)
                q, it, en = self.ev(body, q, s2)
            except Fail as f:
                if f.committed or s2.cut:
                    self.pruned = True
                    raise Fail(False)
                break
            if q == p and count > 0:
                break
            if sep is not None and keepsep:
                out.append(sv)
            out.append(items_value(it))
            merge_env(env, en)
            p = q
            count += 1
        return p, [out], env

    def defaults(self, e):
        s, l = self.g.names_in(e)
        return s - l, l

    def call(self, name, p):
        g = self.g
        if not name.lstrip('_')[:1].isupper():
            p = self.next_token(p)
        if g.lrec and name in g.leftrec and (g.leaders is None or name in g.leaders):
            key = (name, p)
            if key in self.seeds:
                r = self.seeds[key]
                if r is FAIL: raise Fail(False)
                return r
            self.seeds[key] = FAIL
            last = -1
            best = FAIL
            while True:
                try:
                    q, v = self.body(name, p)
                except Fail:
                    break
                if q > last:
                    last = q; best = (q, v); self.seeds[key] = best
                else:
                    break
            del self.seeds[key]
            if best is FAIL: raise Fail(False)
            return best
        return self.body(name, p)

    def body(self, name, p):
        self.depth += 1
        if self.depth > 60: raise RecursionError('ref depth')
        try:
            e = self.g.rules[name]
            sc = Scope()
            q, it, en = self.ev(e, p, sc)
            v = self.fold(it, en)
            if name in self.g.name_rules:
                ks = str(v).upper() if self.g.ignorecase else str(v)
                if ks in self.g.keywords: raise Fail(False)
            if self.actions is not None:
                ps, kws = self.g.rule_params.get(name, ((), {}))
                v = self.actions(name, v, ps, kws)     # SemanticFailure -> Fail ; anything else propagates
            self.spanlog.append((name, p, q, v))
            return q, v
        finally:
            self.depth -= 1

    def fold(self, items, env):
        if OV in env:
            return close(env[OV])
        if env:
            return {k: close(v) for k, v in env.items()}
        return items_value(items)

    def parse(self, start=None):
        start = start or self.g.order[0]
        q, v = self.call(start, 0)
        return v, q


def const_value(lit):
    import ast as _ast
    try:
        return _ast.literal_eval(str(lit).strip())
    except (ValueError, SyntaxError):
        return lit

def close(v):
    return list(v) if isinstance(v, OpenList) else v

def merge_env(env, en):
    for k, v in en.items():
        if k not in env or env[k] is None:
            env[k] = v
        elif v is None:
            pass
        else:
            cur = env[k]
            curl = list(cur) if isinstance(cur, OpenList) else [cur]
            newl = list(v) if isinstance(v, OpenList) else [v]
            env[k] = OpenList(curl + newl)

def merge_env_defaults(env, defs):
    s, l = defs
    for k in l:
        if k not in env: env[k] = OpenList([])
    for k in s:
        if k not in env: env[k] = None


# --------------- rendering to TatSu grammar text -----------------
def render(e):
    k = e[0]
    if k == 'tok': return repr(e[1])
    if k == 'pat': return '/' + e[1] + '/'
    if k == 'dot': return '/./'
    if k == 'void': return '()'
    if k == 'fail': return '!()'
    if k == 'cut': return '~'
    if k == 'eof': return '$'
    if k == 'const': return '`' + str(e[1]) + '`'
    if k == 'emptyc': return '{}'
    if k == 'seq': return ' '.join(('(' + render(x) + ')') if x[0] == 'alt' else render(x) for x in e[1])
    if k == 'grp': return '(' + render(e[1]) + ')'
    if k == 'skipgrp': return '(?:' + render(e[1]) + ')'
    if k == 'alt': return ' | '.join(render(x) for x in e[1])
    if k == 'opt': return '[' + render(e[1]) + ']'
    if k == 'rep': return '{' + render(e[1]) + '}'
    if k == 'rep1': return '{' + render(e[1]) + '}+'
    if k == 'join':
        op = '%' if e[4] else '.'
        sep = render(e[1]) if e[1][0] in ('tok', 'pat', 'call', 'dot', 'grp') else '(' + render(e[1]) + ')'
        return sep + op + '{' + render(e[2]) + '}' + ('+' if e[3] else '')
    if k == 'and': return '&' + rterm(e[1])
    if k == 'not': return '!' + rterm(e[1])
    if k == 'named': return e[1] + '=' + rterm(e[2])
    if k == 'namedl': return e[1] + '+=' + rterm(e[2])
    if k == 'ovr': return '=' + rterm(e[1])
    if k == 'ovrl': return '+=' + rterm(e[1])
    if k == 'call': return e[1]
    if k == 'incl': return '>' + e[1]
    if k == 'skipto': return '->' + rterm(e[1])
    raise ValueError(k)

def rterm(e):
    if e[0] in ('seq', 'alt', 'named', 'namedl', 'ovr', 'ovrl', 'and', 'not', 'skipto', 'join'):
        return '(' + render(e) + ')'
    return render(e)

def render_grammar(rules, directives=''):
    return directives + ''.join(f'{n}: {render(e)} ;\n' for n, e in rules)
