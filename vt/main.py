"""Entry point: python -m vt.main <PROPERTY-ID> <quick|thorough> [--only NAME-SUBSTR] [--keep]"""
from __future__ import annotations

import importlib
import json
import os
import re
import shutil
import sys
import time

from . import known, runner
from .runner import ROOT, Ob


def main(argv):
    prop = argv[1].upper()
    tier = argv[2] if len(argv) > 2 and not argv[2].startswith('--') else os.environ.get('VERIF_TIER', 'quick')
    only = None
    if '--only' in argv:
        only = argv[argv.index('--only') + 1]
    keep = '--keep' in argv
    seed = int(os.environ.get('VERIF_SEED', '0') or 0)
    t0 = time.time()
    mod = importlib.import_module(f'vt.props.{prop.lower()}')
    plan = mod.plan(tier, seed)
    obs: list[Ob] = plan['obligations']
    if only:
        obs = [o for o in obs if only in o.name]
    work = os.path.join(ROOT, '.work', f'{prop}_{os.getpid()}')
    os.makedirs(work, exist_ok=True)
    shutil.copy(os.path.join(ROOT, 'vt', '_crosshair_cfg.toml'), os.path.join(work, 'pyproject.toml')) \
        if os.path.exists(os.path.join(ROOT, 'vt', '_crosshair_cfg.toml')) else None
    rc = 0
    try:
        rc = _run(prop, tier, seed, plan, obs, work, t0, mod)
    finally:
        if not keep:
            shutil.rmtree(work, ignore_errors=True)
    return rc


def _parse_cex(message: str, ob: Ob):
    vals = []
    for n, _, _ in ob.params:
        m = re.search(r'\b' + re.escape(n) + r'\s*=\s*(-?\d+|True|False)', message)
        if not m:
            return None
        v = m.group(1)
        vals.append(int(v) if v not in ('True', 'False') else int(v == 'True'))
    return vals


def _run(prop, tier, seed, plan, obs, work, t0, mod):
    verbose = os.environ.get('VERIF_VERBOSE')

    def progress(ob, r):
        hs = r.get('harness_stats', {})
        print(f"  [{r['state']:>14}] {ob.name:<40} paths={hs.get('paths', 0):<6} wall={r['wall_s']:>7}s "
              f"tags={hs.get('tags', {})}", flush=True)
        if r['state'] in ('ERROR', 'EXEC_ERR') or verbose:
            print('     ', (r.get('error') or json.dumps(r.get('messages')))[-1500:], flush=True)

    print(f'== {prop} {tier} seed={seed}: {len(obs)} obligations on {runner.NCPU} workers (repo {runner.REPO})', flush=True)
    native_results = []
    if plan.get('native'):
        tn = time.time()
        try:
            native_results = plan['native']()
        except Exception as e:  # noqa: BLE001
            import traceback
            native_results = [{'name': 'native-checks-crashed', 'ok': False, 'detail': traceback.format_exc()[-1500:]}]
        print(f'  native by-product checks: {len(native_results)} in {time.time() - tn:.1f}s', flush=True)
    wall_budget = float(os.environ.get('VERIF_WALL_BUDGET', '0') or 0) or (plan.get('wall_budget') or (900.0 if tier == 'quick' else 3300.0))
    results = runner.run_all(obs, work, progress, wall_budget=wall_budget)
    byname = {o.name: o for o in obs}
    tolerated = known.tolerated(prop)
    violations, inconclusive, errors, vacuous, knowns = [], [], [], [], {}
    exhausted = unexhausted = not_run = 0
    paths = witnessed = artifacts = queries = 0
    solver_s = 0.0
    nontrivial = 0
    samples = []
    rdir = os.path.join(ROOT, 'replays', prop) if not os.environ.get('VERIF_NO_EVIDENCE') else os.path.join(work, 'replays')
    for r in results:
        ob = byname[r['name']]
        hs = r.get('harness_stats', {})
        paths += hs.get('paths', 0)
        witnessed += hs.get('witnessed', 0)
        artifacts += hs.get('artifacts', 0)
        nontrivial += hs.get('nontrivial', 0)
        queries += r.get('solver', {}).get('queries', 0)
        solver_s += r.get('solver', {}).get('seconds', 0.0)
        for w in r['witnesses']:
            if w.get('k') == 'w' and len(samples) < 12 and w.get('ok') and not str(w.get('tag', '')).startswith('triv'):
                samples.append({'obligation': r['name'], 'args': w['args'], 'tag': w['tag'], 'digest': w['dg']})
                break
        for tag, n in hs.get('tags', {}).items():
            if tag.startswith('known:'):
                fid = tag[6:]
                ex = next((w for w in r['witnesses'] if w.get('tag') == tag), None)
                knowns.setdefault(fid, []).append((r['name'], ex))
        st = r['state']
        if st == 'CONFIRMED':
            exhausted += 1
            missing = [t for t in ob.require_tags if not any(k == t or k.startswith(t) for k in hs.get('tags', {}))]
            if missing:
                vacuous.append((r['name'], missing, hs.get('tags')))
        elif st == 'CANNOT_CONFIRM':
            unexhausted += 1
        elif st == 'NOT_RUN':
            not_run += 1
        elif st == 'ERROR':
            errors.append((r['name'], r.get('error', '')[-800:]))
        elif st in ('EXEC_ERR', 'PRE_UNSAT', 'NO_CONDITIONS'):
            inconclusive.append((r['name'], st, json.dumps(r.get('messages'))[-600:]))
        if hs.get('artifacts'):
            inconclusive.append((r['name'], 'engine-artifact', f"{hs['artifacts']} paths where symbolic and native runs disagree"))
        # candidates for violation: native failures from the witness log, else CrossHair's own counterexample
        cands = [w['args'] for w in r['witnesses'] if w.get('k') == 'w' and not w.get('ok')]
        if st == 'POST_FAIL' and not cands:
            for m in r.get('messages', []):
                if m['state'] == 'POST_FAIL':
                    c = _parse_cex(m['message'], ob)
                    if c:
                        cands.append(c)
        seen = set()
        for i, c in enumerate(cands[:5]):
            if tuple(c) in seen:
                continue
            seen.add(tuple(c))
            rp = runner.replay(ob, c, work, tag=str(i))
            if rp['rc'] == 1:
                os.makedirs(rdir, exist_ok=True)
                dst = os.path.join(rdir, f'{ob.name}_{i}.json')
                rec = dict(rp['record'])
                rec['observed'] = {'tag': rp.get('tag'), 'dg': rp.get('dg')}
                rec['stdout'] = rp['stdout']
                json.dump(rec, open(dst, 'w'), indent=1, default=repr)
                violations.append((ob.name, c, dst, rp.get('tag'), rp.get('dg')))
                break
            elif rp['rc'] == 0:
                inconclusive.append((r['name'], 'non-reproducing-counterexample', json.dumps(c)))
            else:
                errors.append((r['name'], 'replay harness error: ' + rp['stdout'][-500:]))
        if st == 'POST_FAIL' and not cands:
            inconclusive.append((r['name'], 'counterexample-unparsed', json.dumps(r.get('messages'))[-600:]))
    nat_fail = [n for n in native_results if not n['ok'] and not n.get('known')]
    for n in native_results:
        if n.get('known'):
            knowns.setdefault(n['known'], []).append((n['name'], n.get('detail')))
    for n in nat_fail:
        os.makedirs(rdir, exist_ok=True)
        dst = os.path.join(rdir, f"native_{re.sub(r'[^A-Za-z0-9_.-]', '_', n['name'])[:80]}.json")
        json.dump(n, open(dst, 'w'), indent=1, default=repr)
        violations.append((n['name'], None, dst, 'native', n.get('detail')))
    wall = time.time() - t0
    # ---- report
    for fid, occ in sorted(knowns.items()):
        ent = tolerated.get(fid)
        if ent is None:
            # a body may only tolerate what the file lists; anything else is a violation
            violations.append((occ[0][0], None, '', 'unlisted-known:' + fid, None))
            continue
        ex = occ[0][1]
        exs = (json.dumps(ex.get('dg'), default=repr)[:200] if isinstance(ex, dict) else str(ex)[:200])
        print(f"KNOWN-FINDING: property={prop} {fid}: {ent['what']} (seen in {len(occ)} obligations, e.g. {occ[0][0]}: {exs})")
    for name, c, dst, tag, dg in violations:
        print(f'  violation in {name}: args={c} observed={tag} {json.dumps(dg, default=repr)[:400]}')
        print(f'VIOLATION property={prop} replay={dst}')
    for name, kind, detail in inconclusive:
        print(f'  INCONCLUSIVE {name}: {kind}: {detail[:300]}')
    for name, missing, tags in vacuous:
        print(f'  VACUOUS {name}: required outcome tags {missing} never witnessed (saw {tags})')
    for name, err in errors:
        print(f'  HARNESS-ERROR {name}: {err}')
    level = plan.get('level', 'other')
    cov = {
        'explanation': plan['explanation'],
        'functions_encoded': plan.get('functions_encoded', []),
        'bounds': plan.get('bounds', ''),
        'outside_bounds': plan.get('outside', ''),
        'obligations': len(obs),
        'discharged': exhausted,
        'exhausted': exhausted,
        'unexhausted': unexhausted,
        'not_run_wall_budget': not_run,
        'wall_budget_s': wall_budget,
        'inconclusive': len(inconclusive),
        'vacuous': len(vacuous),
        'harness_errors': len(errors),
        'evaluations': max(paths, 0) + len(native_results),
        'paths_explored': paths,
        'distinct_nontrivial': nontrivial,
        'rule': plan.get('rule', 'one evaluation = one symbolic path of one obligation (an input class), each re-run natively on a '
                         'solver-chosen witness; non-trivial = distinct native digest whose outcome tag is not trivial '
                         '(trivial: rejected at offset 0 / empty result)'),
        'traces_validated_against_impl': witnessed,
        'engine_artifacts': artifacts,
        'solver_queries': queries,
        'solver_seconds': round(solver_s, 2),
        'programs': plan.get('programs', len({json.dumps(o.spec.get('grammar', o.spec.get('program', o.name)), sort_keys=True) for o in obs}) or 1),
        'disagreements_checked': len(violations) + len([i for i in inconclusive if i[1] == 'non-reproducing-counterexample']),
        'native_checks': len(native_results),
        'samples': samples or [{'obligation': o.name, 'spec': o.spec} for o in obs[:3]],
        'known_findings_seen': sorted(knowns),
        'exhaustive': False,
        'per_obligation': [{'name': r['name'], 'state': r['state'], 'paths': r.get('harness_stats', {}).get('paths', 0),
                            'wall_s': r['wall_s'], 'tags': r.get('harness_stats', {}).get('tags', {})} for r in results],
    }
    ev = {
        'property_id': prop, 'tier': tier, 'seed': seed, 'level': level, 'coverage': cov,
        'assumptions': plan.get('assumptions', []), 'wall_s': round(wall, 2), 'violations': len(violations),
    }
    if not os.environ.get('VERIF_NO_EVIDENCE'):
        os.makedirs(os.path.join(ROOT, 'evidence'), exist_ok=True)
        with open(os.path.join(ROOT, 'evidence', f'{prop}.json'), 'w') as f:
            json.dump(ev, f, indent=1, default=repr)
    print(f'== {prop} {tier}: obligations={len(obs)} exhausted={exhausted} unexhausted={unexhausted} '
          f'not_run={not_run} inconclusive={len(inconclusive)} vacuous={len(vacuous)} errors={len(errors)} violations={len(violations)} '
          f'paths={paths} witnesses={witnessed} solver_queries={queries} solver_s={solver_s:.1f} wall={wall:.1f}s', flush=True)
    if violations:
        return 1
    if errors or vacuous:
        return 2
    return 0


if __name__ == '__main__':
    sys.exit(main(sys.argv))
