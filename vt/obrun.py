"""Runs ONE obligation under CrossHair in this process and writes a JSON result.
usage: python -m vt.obrun <harness.py> <function> <per_condition_timeout> <per_path_timeout> <result.json>"""
from __future__ import annotations

import importlib.util
import json
import os
import sys
import time
import traceback


class _Done(Exception):
    pass


def main():
    hpath, fname, budget, ppt, out = sys.argv[1:6]
    t0 = time.time()
    res = {'harness': hpath, 'function': fname, 'state': 'ERROR', 'messages': []}
    try:
        import crosshair.core_and_libs  # noqa: F401
        from vt import chplugin
        from vt import harness
        from crosshair.core_and_libs import analyze_function, run_checkables
        from crosshair.options import AnalysisOptionSet
        spec = importlib.util.spec_from_file_location('vt_ob_' + os.path.basename(hpath)[:-3], hpath)
        mod = importlib.util.module_from_spec(spec)
        sys.modules[spec.name] = mod
        spec.loader.exec_module(mod)
        res['import_s'] = round(time.time() - t0, 2)
        fn = getattr(mod, fname)
        if harness.STATE.get('warm_fail'):
            res['state'] = 'POST_FAIL'
            res['messages'].append({'state': 'POST_FAIL', 'message': 'native warm-up input violates the property', 'line': 0})
            res['harness_stats'] = harness.summary()
            res['solver'] = dict(chplugin.SOLVER_STATS)
            raise _Done()
        opts = AnalysisOptionSet(per_condition_timeout=float(budget), per_path_timeout=float(ppt), report_all=True,
                                 max_uninteresting_iterations=10 ** 9)
        t1 = time.time()
        msgs = list(run_checkables(analyze_function(fn, opts)))
        res['analysis_s'] = round(time.time() - t1, 2)
        states = []
        for m in msgs:
            states.append(m.state.name)
            res['messages'].append({'state': m.state.name, 'message': str(m.message)[:600], 'line': m.line})
        if not states:
            res['state'] = 'NO_CONDITIONS'
        elif all(s == 'CONFIRMED' for s in states):
            res['state'] = 'CONFIRMED'
        elif any(s == 'POST_FAIL' for s in states):
            res['state'] = 'POST_FAIL'
        elif any(s in ('EXEC_ERR', 'POST_ERR', 'SYNTAX_ERR', 'IMPORT_ERR') for s in states):
            res['state'] = 'EXEC_ERR'
        elif any(s == 'PRE_UNSAT' for s in states):
            res['state'] = 'PRE_UNSAT'
        else:
            res['state'] = 'CANNOT_CONFIRM'
        res['harness_stats'] = harness.summary()
        res['solver'] = dict(chplugin.SOLVER_STATS)
    except _Done:
        pass
    except BaseException as e:  # noqa: BLE001
        res['state'] = 'ERROR'
        res['error'] = ''.join(traceback.format_exception(type(e), e, e.__traceback__))[-3000:]
    res['wall_s'] = round(time.time() - t0, 2)
    with open(out, 'w') as f:
        json.dump(res, f, default=repr)


if __name__ == '__main__':
    main()
